package c14

import (
	"bytes"
	"fmt"
	"io"
	"strings"
	"testing"

	"github.com/cnotch/ipchub/av/format/rtsp"
	"pgregory.net/rapid"
	"verif/harness/lib/evid"
)

// Message objects with a history (after seeded change C14-R3A).
//
// Request.Write / Response.Write derive Content-Length from the body. The
// header map they are given is not always fresh: PullClient.onRequest answers
// a request with a Response built on the request's own Header (which holds the
// request's Content-Length), and a message object may be written again after
// its body was changed or cleared. Whatever the map held before, what goes on
// the wire must frame exactly the body the message has at that moment, so that
// the bytes behind it are the next item.
//
// Case: a request or response whose header map already holds a Content-Length
// entry (equal to / larger than / smaller than the body / "0" / not a number /
// absent; under the project's spelling, another spelling, or both), possibly
// obtained by reading a body-carrying request, is written
// 1..3 times to one stream with a different body each time (empty or not);
// behind every write come 0..2 follow-up items (an interleaved frame, a fresh
// message). Oracle: each written segment is one well-formed item that says
// what was meant (reference parser), and the dispatcher over a chunked
// delivery of the whole stream yields exactly the meant sequence and then EOF.

type reuseWrite struct {
	Body   []byte   `json:"body"`
	Follow []string `json:"follow"`
}

type reuseCase struct {
	Kind     int          `json:"kind"`
	Origin   string       `json:"origin"` // fresh | answer-on-request-header
	PreCL    string       `json:"pre_content_length"`
	PreKey   string       `json:"pre_key"`
	Base     item         `json:"base"`
	Writes   []reuseWrite `json:"writes"`
	Channels []int        `json:"channels"`
	D        delivery     `json:"delivery"`
	Stream   string       `json:"stream"`
}

func genSmallBody(t *rapid.T, label string) []byte {
	switch rapid.IntRange(0, 5).Draw(t, label+"kind") {
	case 0, 1:
		return nil
	case 2:
		return []byte("barparam: 42\r\n")
	case 3:
		return fillBytes(rapid.IntRange(1, 40).Draw(t, label+"len"), genTile(t))
	case 4:
		return fillBytes(rapid.SampledFrom([]int{99, 100, 101, 999, 1000, 4096}).Draw(t, label+"edge"), genTile(t))
	default:
		return []byte(sdpSample)
	}
}

func withoutKey(lines []hdrLine, key string) []hdrLine {
	var out []hdrLine
	for _, l := range lines {
		if !strings.EqualFold(l.Key, key) {
			out = append(out, l)
		}
	}
	return out
}

func headerOf(q *rtsp.Request, p *rtsp.Response) rtsp.Header {
	if q != nil {
		return q.Header
	}
	return p.Header
}

func propReuse(t *rapid.T) {
	ch := genChannels(t)
	c := reuseCase{Channels: ch, D: genDelivery(t)}
	first := genSmallBody(t, "body0")
	nw := rapid.IntRange(1, 3).Draw(t, "nwrites")

	var reqObj *rtsp.Request
	var respObj *rtsp.Response
	var base item

	if rapid.IntRange(0, 2).Draw(t, "origin") == 0 {
		// what PullClient.onRequest does: the answer is built on the header of the
		// request it answers (User-Agent removed, Public set for OPTIONS)
		c.Origin = "answer-on-request-header"
		g := genRequest(t, false)
		u, m := normaliseURL(g.It.URL, g.Ex)
		if m != "" {
			t.Fatalf("%s", m)
		}
		g.It.URL = u.String()
		g.It.Body = genSmallBody(t, "reqbody")
		r, _ := newReader(refEncode(g.It, genStyle(t)), dWhole, nil)
		q, err := rtsp.ReadRequest(r)
		if err != nil {
			evid.Violation(t, "reuse", abbreviate(g.It), "ReadRequest failed on a grammar request: %v", err)
		}
		code := 405
		lines := withoutKey(g.It.H, "User-Agent")
		q.Header.Del(rtsp.FieldUserAgent)
		if g.It.Method == "OPTIONS" {
			code = 200
			lines = append(withoutKey(lines, "Public"), hdrLine{"Public", []string{"OPTIONS"}})
			q.Header.Set(rtsp.FieldPublic, rtsp.MethodOptions)
		}
		c.Kind = kindResp
		c.PreCL = fmt.Sprintf("from the request (%d)", len(g.It.Body))
		respObj = &rtsp.Response{StatusCode: code, Header: q.Header}
		base = item{Kind: kindResp, Code: code, H: lines}
	} else {
		c.Origin = "fresh"
		var h rtsp.Header
		if rapid.Bool().Draw(t, "isreq") {
			g := genRequest(t, false)
			u, m := normaliseURL(g.It.URL, g.Ex)
			if m != "" {
				t.Fatalf("%s", m)
			}
			g.It.URL = u.String()
			base = g.It
			h = buildHeader(base.H, false, nil)
			uc := *u
			reqObj = &rtsp.Request{Method: base.Method, URL: &uc, Header: h}
		} else {
			g := genResponse(t, false)
			base = g.It
			h = buildHeader(base.H, false, nil)
			respObj = &rtsp.Response{StatusCode: base.Code, Header: h}
		}
		c.Kind = base.Kind
		// the entry the map already holds, relative to the first body written
		switch rapid.IntRange(0, 6).Draw(t, "precl") {
		case 0:
			c.PreCL = "absent"
		case 1:
			c.PreCL = "equal"
			h[rtsp.FieldContentLength] = []string{fmt.Sprint(len(first))}
		case 2:
			c.PreCL = "larger"
			h[rtsp.FieldContentLength] = []string{fmt.Sprint(len(first) + rapid.IntRange(1, 60).Draw(t, "more"))}
		case 3:
			c.PreCL = "smaller"
			h[rtsp.FieldContentLength] = []string{fmt.Sprint(len(first) / 2)}
		case 4:
			c.PreCL = "zero"
			h[rtsp.FieldContentLength] = []string{"0"}
		case 5:
			c.PreCL = "not-a-number"
			h[rtsp.FieldContentLength] = []string{"abc"}
		default:
			c.PreCL = "two-values"
			h[rtsp.FieldContentLength] = []string{"7", fmt.Sprint(len(first) + 3)}
		}
	}
	c.PreKey = rtsp.FieldContentLength
	// the entry may sit in the map under another spelling (Header.Set / Add keep the
	// spelling they are given), alone or next to the project's spelling
	if h := headerOf(reqObj, respObj); len(h[rtsp.FieldContentLength]) > 0 && rapid.IntRange(0, 2).Draw(t, "otherspelling?") == 0 {
		c.PreKey = recase(rtsp.FieldContentLength, rapid.SampledFrom([]int{1, 2, 3, 4, 0x2a5<<4 | 16}).Draw(t, "prekeycase"))
		if c.PreKey != rtsp.FieldContentLength {
			h[c.PreKey] = h[rtsp.FieldContentLength]
			if rapid.Bool().Draw(t, "only-other-spelling") {
				delete(h, rtsp.FieldContentLength)
			} else {
				c.PreKey += " + " + rtsp.FieldContentLength
			}
		}
	}
	base.Body = nil
	c.Base = base

	var stream bytes.Buffer
	var want []seqItem
	for w := 0; w < nw; w++ {
		body := first
		if w > 0 {
			body = genSmallBody(t, fmt.Sprintf("body%d", w))
		}
		it := base
		it.Body = body
		start := stream.Len()
		var err error
		if reqObj != nil {
			reqObj.Body = string(body)
			err = reqObj.Write(&stream)
		} else {
			respObj.Body = string(body)
			respObj.Status = ""
			err = respObj.Write(&stream)
			// the reason phrase is ipchub's choice for an empty Status: read it off the wire
			if p, _, perr := refParse(stream.Bytes()[start:]); perr == nil && p.Kind == kindResp {
				it.Reason = p.Reason
			}
		}
		rw := reuseWrite{Body: body}
		seg := append([]byte(nil), stream.Bytes()[start:]...)
		if err != nil {
			evid.Violation(t, "reuse-write", c, "write %d: %v", w, err)
		}
		if m := checkWire(it, seg); m != "" {
			c.Writes = append(c.Writes, rw)
			c.Stream = wireSample(stream.Bytes())
			evid.Violation(t, "reuse-write", c, "write %d of a %s message (Content-Length in the map before the first write: %s; body now %d bytes): %s; written %s", w, c.Origin, c.PreCL, len(body), m, wireSample(seg))
		}
		want = append(want, seqItem{It: it})
		for f := rapid.IntRange(0, 2).Draw(t, "nfollow"); f > 0; f-- {
			if rapid.Bool().Draw(t, "followframe") {
				g := genFrame(t, ch)
				if len(g.It.Payload) > 3000 {
					g.It.Payload = g.It.Payload[:3000]
				}
				stream.Write(refEncode(g.It, wireStyle{}))
				want = append(want, seqItem{It: g.It, frm: g})
				rw.Follow = append(rw.Follow, "frame")
			} else {
				g := genResponse(t, false)
				g.It.Body = genSmallBody(t, "followbody")
				if g.Default {
					g.It.Reason = "OK"
				}
				stream.Write(refEncode(g.It, genStyle(t)))
				want = append(want, seqItem{It: g.It})
				rw.Follow = append(rw.Follow, "response")
			}
		}
		c.Writes = append(c.Writes, rw)
	}
	c.Stream = wireSample(stream.Bytes())

	r, cr := newReader(stream.Bytes(), c.D, nil)
	res := runReceive(r, ch, len(want))
	evid.Eval(1)
	if res.err != nil {
		evid.Violation(t, "reuse", c, "receive call %d of %d failed: %v (delivered kinds so far: %v)", res.calls, len(want), res.err, res.order)
	}
	qi, pi, fi := 0, 0, 0
	for i, si := range want {
		if res.order[i] != si.It.Kind {
			evid.Violation(t, "reuse", c, "item %d delivered as kind %d, want %d", i, res.order[i], si.It.Kind)
		}
		var m string
		switch si.It.Kind {
		case kindReq:
			m = checkRequest(si.It, res.reqs[qi])
			qi++
		case kindResp:
			m = checkResponse(si.It, res.resps[pi])
			pi++
		case kindFrame:
			m = checkPacket(si.frm, res.packs[fi])
			fi++
		}
		if m != "" {
			evid.Violation(t, "reuse", c, "item %d: %s", i, m)
		}
	}
	extra := runReceive(r, ch, 1)
	if extra.err != io.EOF || len(extra.order) != 0 || cr.pos != stream.Len() || r.Buffered() != 0 {
		evid.Violation(t, "reuse-position", c, "after %d items the next receive gave err=%v items=%v; want io.EOF and nothing", len(want), extra.err, extra.order)
	}
	evid.Class("reuse:origin:" + c.Origin)
	if c.Origin == "fresh" {
		evid.Class("reuse:map-holds-content-length:" + c.PreCL)
	}
	if c.PreKey != rtsp.FieldContentLength {
		evid.Class("reuse:content-length-under-another-spelling")
	}
	evid.Class(fmt.Sprintf("reuse:writes=%d", nw))
	emptied, stale := false, false
	for i, w := range c.Writes {
		if i > 0 && len(w.Body) == 0 && len(c.Writes[i-1].Body) > 0 {
			emptied = true
		}
		if len(w.Body) == 0 && len(w.Follow) > 0 {
			stale = true
		}
	}
	if emptied {
		evid.Class("reuse:body-cleared-between-writes")
	}
	if stale {
		evid.Class("reuse:empty-body-with-follow-up")
	}
	if evid.WantSample("reuse") {
		evid.Sample("reuse", c)
	}
}

// ---- every known field name in every spelling, through the typed accessors ----
// (after seeded change C14-R3B)

// projectField ties the RFC spelling to ipchub's own constant: the session, the
// pull client and the auth helpers look fields up under these.
var projectField = map[string]string{
	"Accept": rtsp.FieldAccept, "Accept-Encoding": rtsp.FieldAcceptEncoding, "Accept-Language": rtsp.FieldAcceptLanguage,
	"Allow": rtsp.FieldAllow, "Authorization": rtsp.FieldAuthorization, "Bandwidth": rtsp.FieldBandwidth,
	"Blocksize": rtsp.FieldBlocksize, "Cache-Control": rtsp.FieldCacheControl, "Conference": rtsp.FieldConference,
	"Connection": rtsp.FieldConnection, "Content-Base": rtsp.FieldContentBase, "Content-Encoding": rtsp.FieldContentEncoding,
	"Content-Language": rtsp.FieldContentLanguage, "Content-Length": rtsp.FieldContentLength, "Content-Location": rtsp.FieldContentLocation,
	"Content-Type": rtsp.FieldContentType, "CSeq": rtsp.FieldCSeq, "Date": rtsp.FieldDate, "Expires": rtsp.FieldExpires,
	"From": rtsp.FieldFrom, "If-Modified-Since": rtsp.FieldIfModifiedSince, "Last-Modified": rtsp.FieldLastModified,
	"Proxy-Authenticate": rtsp.FieldProxyAuthenticate, "Proxy-Require": rtsp.FieldProxyRequire, "Public": rtsp.FieldPublic,
	"Range": rtsp.FieldRange, "Referer": rtsp.FieldReferer, "Require": rtsp.FieldRequire, "Retry-After": rtsp.FieldRetryAfter,
	"RTP-Info": rtsp.FieldRTPInfo, "Scale": rtsp.FieldScale, "Session": rtsp.FieldSession, "Server": rtsp.FieldServer,
	"Speed": rtsp.FieldSpeed, "Transport": rtsp.FieldTransport, "Unsupported": rtsp.FieldUnsupported,
	"User-Agent": rtsp.FieldUserAgent, "Via": rtsp.FieldVia, "WWW-Authenticate": rtsp.FieldWWWAuthenticate,
}

var fieldValue = map[string]string{
	"CSeq": "4711", "Session": "66334873;timeout=60", "Transport": "RTP/AVP/TCP;unicast;interleaved=0-1",
	"RTP-Info": "url=rtsp://h/live/streamid=0;seq=45102;rtptime=12345678", "Range": "npt=0.000-",
	"Public": "DESCRIBE, SETUP, TEARDOWN, PLAY", "Content-Type": "application/sdp", "Content-Base": "rtsp://h/live/",
	"WWW-Authenticate": `Digest realm="Another Streaming Media", nonce="60a76a995a0cb012f1707abc188f60cb"`,
	"Authorization":    "Basic QWxhZGRpbjpvcGVuIHNlc2FtZQ==",
}

type spellCase struct {
	Field    string `json:"field"`
	Spelling string `json:"spelling"`
	Mode     int    `json:"mode"`
	Response bool   `json:"response"`
	Wire     string `json:"wire"`
}

func spellings(name string) []int {
	// project form, all upper, all lower, alternating, MIME title case, and three
	// fixed per-letter patterns
	return []int{0, 1, 2, 3, 4, 0x555555<<4 | 16, 0x333333<<4 | 16, 0x00000e<<4 | 16}
}

func checkSpelling(c spellCase) string {
	name := c.Field
	val := fieldValue[name]
	if val == "" {
		val = "value-of-" + strings.ToLower(name)
	}
	body := []byte("param: 1\r\n")
	it := item{Kind: kindReq, Method: "SET_PARAMETER", URL: "rtsp://h/live", Body: body}
	if c.Response {
		it = item{Kind: kindResp, Code: 401, Reason: "Unauthorized", Body: body}
	}
	st := wireStyle{KeyCase: []int{0, c.Mode, 0}}
	if name == "Content-Length" {
		st.CLCase, st.CLPos = c.Mode, 1
		it.H = []hdrLine{{"X-Before", []string{"b"}}, {"X-After", []string{"a"}}}
	} else {
		it.H = []hdrLine{{"X-Before", []string{"b"}}, {name, []string{val}}, {"X-After", []string{"a"}}}
	}
	wire := append(refEncode(it, st), trailer...)
	for _, d := range []delivery{dWhole, dByte} {
		r, _ := newReader(wire, d, nil)
		var h rtsp.Header
		var q *rtsp.Request
		var p *rtsp.Response
		var err error
		if c.Response {
			if p, err = rtsp.ReadResponse(r); err == nil {
				h = p.Header
				if m := checkResponse(it, p); m != "" {
					return m
				}
			}
		} else {
			if q, err = rtsp.ReadRequest(r); err == nil {
				h = q.Header
				if m := checkRequest(it, q); m != "" {
					return m
				}
			}
		}
		if err != nil {
			return "read failed: " + err.Error()
		}
		if rest := restOf(r); !bytes.Equal(rest, trailer) {
			return fmt.Sprintf("the stream behind the message holds %q, want %q", rest, trailer)
		}
		key := projectField[name]
		if name == "Content-Length" {
			if h.Int(key) != len(body) || h.Get(key) != fmt.Sprint(len(body)) {
				return fmt.Sprintf("Header.Int(%q) = %d, Header.Get = %q, want %d", key, h.Int(key), h.Get(key), len(body))
			}
			continue
		}
		if got := h.Get(key); got != val {
			return fmt.Sprintf("Header.Get(%q) = %q, want %q", key, got, val)
		}
		if vs := h[key]; len(vs) != 1 || vs[0] != val {
			return fmt.Sprintf("Header[%q] = %q, want [%q]", key, vs, val)
		}
		switch {
		case name == "WWW-Authenticate" && c.Response:
			realm, nonce, ok := p.DigestAuth()
			if !ok || realm != "Another Streaming Media" || nonce != "60a76a995a0cb012f1707abc188f60cb" {
				return fmt.Sprintf("Response.DigestAuth() = %q %q %v: the challenge is not found", realm, nonce, ok)
			}
		case name == "Authorization" && !c.Response:
			u, pw, ok := q.BasicAuth()
			if !ok || u != "Aladdin" || pw != "open sesame" {
				return fmt.Sprintf("Request.BasicAuth() = %q %q %v: the credentials are not found", u, pw, ok)
			}
		}
	}
	return ""
}

func TestKnownFieldSpellings(t *testing.T) {
	evid.Rule("field-name spellings: every RFC 2326 field name known to ipchub (39) x {project form, upper, lower, alternating, MIME title case, 3 per-letter patterns} x {request, response} x {whole, 1-byte delivery}; the field must be found by Header.Get / Header[...] under ipchub's own constant, Content-Length must frame the body, WWW-Authenticate / Authorization must be found by DigestAuth / BasicAuth")
	if len(projectField) != len(rfcHeaderNames) {
		t.Fatalf("harness: %d constants for %d names", len(projectField), len(rfcHeaderNames))
	}
	for _, name := range rfcHeaderNames {
		if projectField[name] == "" {
			t.Fatalf("harness: no ipchub constant for %q", name)
		}
		for _, mode := range spellings(name) {
			for _, resp := range []bool{false, true} {
				c := spellCase{Field: name, Mode: mode, Spelling: recase(name, mode), Response: resp}
				evid.Eval(1)
				if m := checkSpelling(c); m != "" {
					evid.Violation(t, "field-spelling", c, "field %q sent as %q (response=%v): %s", name, c.Spelling, resp, m)
				}
			}
		}
		evid.Class("spelling:" + name)
	}
	// digest challenge and basic challenge variants under the MIME spelling, as a camera sends them
	for _, v := range []string{`Basic realm="ipchub"`, `Digest realm="r", nonce="n"`} {
		it := item{Kind: kindResp, Code: 401, Reason: "Unauthorized", H: []hdrLine{{"CSeq", []string{"2"}}, {"WWW-Authenticate", []string{v}}}}
		for _, mode := range spellings("") {
			r, _ := newReader(refEncode(it, wireStyle{KeyCase: []int{mode}}), dWhole, nil)
			p, err := rtsp.ReadResponse(r)
			evid.Eval(1)
			if err != nil {
				t.Fatalf("ReadResponse: %v", err)
			}
			_, okB := p.BasicAuth()
			_, _, okD := p.DigestAuth()
			if okB == okD || p.Header.Get(rtsp.FieldCSeq) != "2" {
				evid.Violation(t, "field-spelling", spellCase{Field: "WWW-Authenticate", Mode: mode, Spelling: recase("WWW-Authenticate", mode), Response: true},
					"challenge %q sent as %q / %q: BasicAuth ok=%v DigestAuth ok=%v CSeq=%q", v, recase("WWW-Authenticate", mode), recase("CSeq", mode), okB, okD, p.Header.Get(rtsp.FieldCSeq))
			}
		}
	}
}
