package c16

import (
	"fmt"
	"sync"
	"sync/atomic"
	"testing"

	"github.com/cnotch/ipchub/provider/auth"
	"pgregory.net/rapid"
	"verif/harness/lib/evid"
	"verif/harness/lib/refmodel"
)

// One account, many sessions: auth.Get hands the same *User to every session of
// an account and each session checks its own paths on its own goroutine. What a
// pattern permits must not depend on what another session is asking at the same
// moment: K goroutines check different paths against ONE user object (pull and
// push columns, rights with several patterns), each answer is compared with the
// reference, the rounds start together from a spin barrier. Free-running: the
// matcher has no schedule points, the interleavings are the OS's.
func TestConcurrentChecksOnOneAccount(t *testing.T) {
	evid.Checks(25, 400)
	rights := []string{"/rooms/1/*", "/a/+/c;/b/*", "/cam/+/main", "/live/*;/rooms/+/door", "/x", "*", "/a/b/c/d;/a/+;/q/*"}
	paths := []string{"/rooms/1/door", "/rooms/10", "/rooms/2/door", "/a/b/c", "/a/b", "/a/x/c/d", "/b/anything/else", "/cam/7/main", "/cam/7/sub", "/live/x/y", "/vault", "/x", "/x/y", "/q", "/q/r/s", "/a/b/c/d", "/rooms/1", "/A/B/C", "/ROOMS/1/door"}
	rapid.Check(t, func(t *rapid.T) {
		pull := rapid.SampledFrom(rights).Draw(t, "pull")
		push := rapid.SampledFrom(rights).Draw(t, "push")
		k := rapid.IntRange(2, 12).Draw(t, "sessions")
		rounds := rapid.IntRange(200, 1200).Draw(t, "rounds")
		u := install("c16conc", pull, push, false, rapid.Bool().Draw(t, "update"))
		if u == nil {
			t.Fatalf("machinery: user not installed")
		}
		// each session has its own list of paths (different ones at the same moment)
		lists := make([][]string, k)
		for i := range lists {
			n := rapid.IntRange(2, 6).Draw(t, "n")
			for j := 0; j < n; j++ {
				lists[i] = append(lists[i], rapid.SampledFrom(paths).Draw(t, "path"))
			}
		}
		var lined, release int64
		var wg sync.WaitGroup
		var mu sync.Mutex
		var first string
		var checks int64
		for i := 0; i < k; i++ {
			i := i
			wg.Add(1)
			go func() {
				defer wg.Done()
				atomic.AddInt64(&lined, 1)
				for atomic.LoadInt64(&release) == 0 {
				}
				for r := 0; r < rounds; r++ {
					p := lists[i][r%len(lists[i])]
					right, ar, col := pull, auth.PullRight, "pull"
					if (r+i)%3 == 0 {
						right, ar, col = push, auth.PushRight, "push"
					}
					got, want := u.ValidatePermission(p, ar), refmodel.Permits(right, false, p)
					atomic.AddInt64(&checks, 1)
					if got != want {
						mu.Lock()
						if first == "" {
							first = fmt.Sprintf("session %d of %d, round %d: right %q (%s) on path %q: ValidatePermission=%v, reference=%v, while the other sessions of the account were checking %v", i, k, r, right, col, p, got, want, lists)
						}
						mu.Unlock()
						return
					}
				}
			}()
		}
		for atomic.LoadInt64(&lined) < int64(k) {
		}
		atomic.StoreInt64(&release, 1)
		wg.Wait()
		evid.Eval(atomic.LoadInt64(&checks))
		if first != "" {
			evid.Violation(t, "concurrent-checks", map[string]any{"pull": pull, "push": push, "sessions": k, "paths": lists}, "%s", first)
		}
		evid.Class("concurrent checks on one account")
		evid.Nontrivial(evid.FP("conc", pull, push, k, fmt.Sprint(lists)))
	})
}
