package c16

import (
	"fmt"
	"strings"
	"sync"
	"sync/atomic"
	"testing"
	"unicode"

	"github.com/cnotch/ipchub/provider/auth"
	"pgregory.net/rapid"
	"verif/harness/lib/evid"
	"verif/harness/lib/refmodel"
)

// A literal segment matches itself and nothing else, case-insensitively — for
// every character a path can carry, not only for the letters of the exhaustive
// sweep. Patterns are built from literal segments over a wide alphabet (ASCII
// letters, digits, punctuation, control bytes, Latin-1 / Greek / Cyrillic
// letters); the path is a matching path with ONE character replaced by a
// near-miss: the same byte with bit 5 flipped (what a cheap ASCII case fold
// confuses: '1' / 0x11, '{' / '[', '_' / DEL, '@' / '`'), its Unicode upper- or
// lower-case counterpart (which must still match), another character of the
// alphabet, or nothing changed. Blanks are not used inside segments (their
// handling is outside the stated domain).
var wideAlphabet = []rune("ab1z09-._~{}[]|\\^@`!$&'()=,%#\x01\x11\x1f\x7fÉéßÄäΩωКкЯя中")

func wideSeg(t *rapid.T, label string) string {
	n := rapid.IntRange(1, 4).Draw(t, label+"Len")
	var b strings.Builder
	for i := 0; i < n; i++ {
		b.WriteRune(rapid.SampledFrom(wideAlphabet).Draw(t, label))
	}
	return b.String()
}

func TestLiteralSegmentsOverWideAlphabet(t *testing.T) {
	evid.Checks(6000, 80000)
	n := 0
	rapid.Check(t, func(t *rapid.T) {
		n++
		nseg := rapid.IntRange(1, 3).Draw(t, "segments")
		segs := make([]string, nseg)
		for i := range segs {
			segs[i] = wideSeg(t, "seg")
		}
		pat := "/" + strings.Join(segs, "/")
		tail := rapid.SampledFrom([]string{"", "/*", "/+"}).Draw(t, "tail")
		pat += tail
		// a path that matches …
		psegs := append([]string(nil), segs...)
		switch tail {
		case "/+":
			psegs = append(psegs, wideSeg(t, "plus"))
		case "/*":
			for k := rapid.IntRange(0, 2).Draw(t, "more"); k > 0; k-- {
				psegs = append(psegs, wideSeg(t, "more"))
			}
		}
		// … with one character of one literal segment replaced
		kind := rapid.SampledFrom([]string{"none", "bit5", "upper", "lower", "other", "bit5", "upper"}).Draw(t, "mutation")
		si := rapid.IntRange(0, nseg-1).Draw(t, "segIndex")
		rs := []rune(psegs[si])
		ci := rapid.IntRange(0, len(rs)-1).Draw(t, "charIndex")
		switch kind {
		case "bit5":
			if rs[ci] < 0x80 {
				rs[ci] ^= 0x20
			} else {
				rs[ci] ^= 0x20 // neighbouring code point
			}
		case "upper":
			rs[ci] = unicode.ToUpper(rs[ci])
		case "lower":
			rs[ci] = unicode.ToLower(rs[ci])
		case "other":
			rs[ci] = rapid.SampledFrom(wideAlphabet).Draw(t, "otherChar")
		}
		for _, r := range rs {
			if unicode.IsSpace(r) || r == '/' || r == ';' || r == '+' || r == '*' || r == 0 {
				t.Skip("mutation produced a separator or a blank")
			}
		}
		psegs[si] = string(rs)
		path := "/" + strings.Join(psegs, "/")
		u := install("c16wide", pat, "", false, n%2 == 0)
		if u == nil {
			t.Fatalf("machinery: user not installed")
		}
		got, want := u.ValidatePermission(path, auth.PullRight), refmodel.Permits(pat, false, path)
		evid.Eval(1)
		if got != want {
			evid.Violation(t, "wide-alphabet", map[string]any{"right": pat, "path": path, "mutation": kind}, "right %q on path %q (%s, bytes % x): ValidatePermission=%v, reference=%v", pat, path, kind, []byte(path), got, want)
		}
		evid.Class("wide alphabet: mutation " + kind)
		if kind != "none" {
			evid.Nontrivial(evid.FP("wide", pat, path))
		}
	})
}

// A check that starts after a Save has returned is decided by the saved
// patterns, also while other sessions of the account keep checking the same path
// (a poller that hits the moment of the update may be served either version; the
// caller that saved and then asks may not).
func TestCheckAfterSaveBesideConcurrentChecks(t *testing.T) {
	evid.Checks(24, 300)
	rapid.Check(t, func(t *rapid.T) {
		narrow := rapid.SampledFrom([]string{"/live/other", "/x", "", "/live/cam1/sub"}).Draw(t, "narrow")
		wide := rapid.SampledFrom([]string{"/live/*", "*", "/live/cam1", "/live/+"}).Draw(t, "wide")
		path := "/live/cam1"
		pollers := rapid.IntRange(2, 8).Draw(t, "pollers")
		rounds := rapid.IntRange(400, 1500).Draw(t, "rounds")
		install("c16memo", wide, wide, false, false)
		var stop int64
		var wg sync.WaitGroup
		for i := 0; i < pollers; i++ {
			wg.Add(1)
			go func() {
				defer wg.Done()
				for atomic.LoadInt64(&stop) == 0 {
					if u := auth.Get("c16memo"); u != nil {
						u.ValidatePermission(path, auth.PullRight)
					}
				}
			}()
		}
		bad := ""
		for r := 0; r < rounds && bad == ""; r++ {
			right := narrow
			if r%2 == 1 {
				right = wide
			}
			u := install("c16memo", right, right, false, true) // in-place update, as the API's save of an existing account
			for k := 0; k < 3 && bad == ""; k++ {
				got, want := u.ValidatePermission(path, auth.PullRight), refmodel.Permits(right, false, path)
				evid.Eval(1)
				if got != want {
					bad = fmt.Sprintf("round %d: after Save(pull=%q) returned, check %d of path %q gives %v, the saved right says %v (while %d other sessions were polling the same path)", r, right, k, path, got, want, pollers)
				}
			}
		}
		atomic.StoreInt64(&stop, 1)
		wg.Wait()
		if bad != "" {
			evid.Violation(t, "check-after-save", map[string]any{"narrow": narrow, "wide": wide, "pollers": pollers}, "%s", bad)
		}
		evid.Class("check after save beside concurrent checks")
		evid.Nontrivial(evid.FP("memo", narrow, wide, pollers, rounds))
	})
}

// A check that runs WHILE the account is being saved is decided by the rights
// saved before or by the rights saved now — never by a mixture: when both
// versions of the right permit the path, a concurrent check must permit it, and
// when both refuse it, it must refuse. The two versions list the same patterns
// in different orders / with insertions in front, so that the pattern that
// decides sits at different positions.
func TestCheckDuringSaveSeesOneVersion(t *testing.T) {
	evid.Checks(16, 250)
	rapid.Check(t, func(t *rapid.T) {
		filler := rapid.IntRange(3, 200).Draw(t, "fillerPatterns")
		var fill []string
		for i := 0; i < filler; i++ {
			fill = append(fill, fmt.Sprintf("/other/%d/*", i))
		}
		front := "/live/cam1;" + strings.Join(fill, ";")
		back := strings.Join(fill, ";") + ";/live/cam1"
		mid := strings.Join(fill[:filler/2], ";") + ";/live/+;" + strings.Join(fill[filler/2:], ";")
		versions := []string{front, back, mid}
		permitted, refused := "/live/cam1", "/vault/x"
		checkers := rapid.IntRange(2, 8).Draw(t, "checkers")
		saves := rapid.IntRange(100, 500).Draw(t, "saves")
		install("c16during", front, front, false, false)
		var stop int64
		var wg sync.WaitGroup
		var mu sync.Mutex
		bad := ""
		var checks int64
		for i := 0; i < checkers; i++ {
			wg.Add(1)
			go func() {
				defer wg.Done()
				for atomic.LoadInt64(&stop) == 0 {
					u := auth.Get("c16during")
					if u == nil {
						continue
					}
					p, r := u.ValidatePermission(permitted, auth.PullRight), u.ValidatePermission(refused, auth.PullRight)
					atomic.AddInt64(&checks, 2)
					if !p || r {
						mu.Lock()
						if bad == "" {
							bad = fmt.Sprintf("a check concurrent with a save: %q permitted=%v (every version of the right permits it), %q permitted=%v (no version permits it)", permitted, p, refused, r)
						}
						mu.Unlock()
						return
					}
				}
			}()
		}
		for i := 0; i < saves; i++ {
			v := versions[i%len(versions)]
			install("c16during", v, v, false, true)
			mu.Lock()
			b := bad
			mu.Unlock()
			if b != "" {
				break
			}
		}
		atomic.StoreInt64(&stop, 1)
		wg.Wait()
		evid.Eval(atomic.LoadInt64(&checks))
		if bad != "" {
			evid.Violation(t, "check-during-save", map[string]any{"filler_patterns": filler, "checkers": checkers}, "%s (right lists of %d patterns, re-saved with the deciding pattern first / last / in the middle)", bad, filler+1)
		}
		evid.Class("checks during saves whose versions agree on the path")
		evid.Nontrivial(evid.FP("during", filler, checkers, saves))
	})
}
