// C16 — permission patterns mean what the configuration guide says.
// Exhaustive small-scope differential: every right string up to length L over
// {a,B,+,*,/,;} (plus space-decorated variants) × every path up to length M over
// {a,A,b,/}, installed through auth.Save and queried through
// auth.Get(..).ValidatePermission, against refmodel.Permits.
package c16

import (
	"encoding/json"
	"fmt"
	"os"
	"strings"
	"sync"
	"sync/atomic"
	"testing"

	"github.com/cnotch/ipchub/provider/auth"
	"verif/harness/lib/evid"
	"verif/harness/lib/refmodel"
)

func TestMain(m *testing.M) { evid.Main(m, "C16") }

func enumerate(alpha string, maxLen int) []string {
	out := []string{""}
	prev := []string{""}
	for l := 1; l <= maxLen; l++ {
		var cur []string
		for _, p := range prev {
			for _, c := range alpha {
				cur = append(cur, p+string(c))
			}
		}
		out = append(out, cur...)
		prev = cur
	}
	return out
}

type pairCase struct {
	Right   string      `json:"right"`
	Path    string      `json:"path"`
	Admin   bool        `json:"admin"`
	Column  string      `json:"column"`  // "pull" | "push"
	History [][2]string `json:"history"` // (pull, push) installs since the user was last created, first = create
	Got     bool        `json:"got"`
	Want    bool        `json:"want"`
}

func literalise(r string) string {
	return strings.NewReplacer("+", "a", "*", "a").Replace(r)
}

func firstPattern(r string) string {
	for _, p := range strings.Split(r, ";") {
		if strings.TrimSpace(p) != "" {
			return p
		}
	}
	return ""
}

func patternCount(r string) int {
	n := 0
	for _, p := range strings.Split(r, ";") {
		if strings.TrimSpace(p) != "" {
			n++
		}
	}
	return n
}

func nontrivial(right string, admin bool, path string, want bool) bool {
	if strings.ContainsAny(right, "+*") && want != refmodel.Permits(literalise(right), admin, path) {
		return true
	}
	if patternCount(right) >= 2 && want != refmodel.Permits(firstPattern(right), admin, path) {
		return true
	}
	return false
}

// install puts right into the named user's pull or push column. update=true
// edits the existing user (the path an administrator's PUT takes), otherwise
// the user is deleted and created afresh.
func install(name, pull, push string, admin, update bool) *auth.User {
	if !update {
		auth.Del(name)
	}
	auth.Save(&auth.User{Name: name, Password: "x", Admin: admin, PullAccess: pull, PushAccess: push}, false)
	return auth.Get(name)
}

func TestExhaustiveSmallScope(t *testing.T) {
	L, M := 4, 5
	if evid.Thorough() {
		L, M = 5, 6
	}
	evid.Rule(fmt.Sprintf("exhaustive: every right string of length<=%d over {a,B,+,*,/,;} (plain, with leading/trailing space, with spaces around ';') x every path of length<=%d over {a,A,b,/} (plain and space-wrapped), both columns (pull/push), admin on/off, installed by create and by update-in-place; oracle = reference matcher written from docs/config.md; a pair is non-trivial when the right has a wildcard or >=2 patterns and the reference answer differs from the answer with wildcards literalised / from the first pattern alone; pairs are distinct by enumeration", L, M))
	evid.Assume("spaces inside a path segment are outside the documented pattern language and are not generated")
	evid.Exhaustive()
	rights := enumerate("aB+*/;", L)
	paths := enumerate("aAb/", M)
	var variants []string
	for _, r := range rights {
		variants = append(variants, r)
		if r != "" {
			variants = append(variants, " "+r, r+" ")
			if strings.Contains(r, ";") {
				variants = append(variants, strings.ReplaceAll(r, ";", " ; "))
			}
		}
	}
	pathVariants := make([]string, 0, len(paths)*2)
	for _, p := range paths {
		pathVariants = append(pathVariants, p)
	}
	// space-wrapped paths: a fixed-stride subset keeps the product affordable
	for i := 0; i < len(paths); i += 7 {
		pathVariants = append(pathVariants, " "+paths[i]+" ")
	}

	const W = 16
	var wg sync.WaitGroup
	var failed atomic.Bool
	var mu sync.Mutex
	var first *pairCase
	var evals, nt int64
	for w := 0; w < W; w++ {
		wg.Add(1)
		go func(w int) {
			defer wg.Done()
			name := fmt.Sprintf("c16w%d", w)
			prev := ""
			var hist [][2]string
			var le, ln int64
			n := 0
			for i := w; i < len(variants); i += W {
				if failed.Load() {
					return
				}
				right := variants[i]
				n++
				admin := n%5 == 0
				update := n%3 != 0 // two of three installs edit the existing user in place
				// columns: the right under test alternates between pull and push; the other
				// column holds the previous right so both are non-empty and different.
				pullCol := n%2 == 0
				var u *auth.User
				if !update {
					hist = hist[:0]
				}
				if pullCol {
					hist = append(hist, [2]string{right, prev})
					u = install(name, right, prev, admin, update)
				} else {
					hist = append(hist, [2]string{prev, right})
					u = install(name, prev, right, admin, update)
				}
				if u == nil {
					failed.Store(true)
					t.Errorf("auth.Get(%q) nil after Save", name)
					return
				}
				for _, p := range pathVariants {
					for col := 0; col < 2; col++ {
						r, ar, colName := right, auth.PullRight, "pull"
						if (col == 0) != pullCol {
							r = prev
						}
						if col == 1 {
							ar, colName = auth.PushRight, "push"
						}
						want := refmodel.Permits(r, admin, p)
						got := u.ValidatePermission(p, ar)
						le++
						if nontrivial(r, admin, p, want) {
							ln++
						}
						if got != want {
							mu.Lock()
							if first == nil {
								first = &pairCase{Right: r, Path: p, Admin: admin, Column: colName, History: append([][2]string(nil), hist...), Got: got, Want: want}
							}
							mu.Unlock()
							failed.Store(true)
							return
						}
					}
				}
				prev = right
			}
			atomic.AddInt64(&evals, le)
			atomic.AddInt64(&nt, ln)
			auth.Del(name)
		}(w)
	}
	wg.Wait()
	evid.Eval(evals)
	evid.NontrivialN(nt)
	evid.ClassN("rights", int64(len(variants)))
	evid.ClassN("paths", int64(len(pathVariants)))
	for _, s := range [][2]string{{"/a/+/*;b", "/A/b/a"}, {"+/*", "a"}, {"a;*/", "/b"}, {" B ; /a/* ", " /a "}} {
		evid.Sample("pair", map[string]any{"right": s[0], "path": s[1], "reference": refmodel.Permits(s[0], false, s[1])})
	}
	if first != nil {
		evid.Violation(t, "pair", first, "right %q (admin=%v, install history %q) on path %q column %s: ValidatePermission=%v, reference=%v",
			first.Right, first.Admin, first.History, first.Path, first.Column, first.Got, first.Want)
	}
}

// Each right defaults separately: an administrator with exactly one right
// empty gets '*' for that one and keeps the other as written. Every right string
// of the small scope is installed in one column with the other column empty,
// created and updated, admin and not.
func TestAdminDefaultsPerRight(t *testing.T) {
	L, M := 4, 4
	if evid.Thorough() {
		L, M = 5, 5
	}
	rights := enumerate("aB+*/;", L)
	paths := enumerate("aAb/", M)
	const W = 16
	var wg sync.WaitGroup
	var mu sync.Mutex
	var first *pairCase
	var evals, nt int64
	for w := 0; w < W; w++ {
		wg.Add(1)
		go func(w int) {
			defer wg.Done()
			name := fmt.Sprintf("c16adm%d", w)
			var le, ln int64
			for i := w; i < len(rights); i += W {
				r := rights[i]
				for variant := 0; variant < 4; variant++ {
					admin := variant < 2
					inPull := variant%2 == 0
					pull, push := r, ""
					if !inPull {
						pull, push = "", r
					}
					u := install(name, pull, push, admin, i%3 != 0)
					for _, p := range paths {
						for col := 0; col < 2; col++ {
							rr, ar, colName := pull, auth.PullRight, "pull"
							if col == 1 {
								rr, ar, colName = push, auth.PushRight, "push"
							}
							want := refmodel.Permits(rr, admin, p)
							got := u.ValidatePermission(p, ar)
							le++
							if admin && rr == "" {
								ln++ // the defaulted column of an administrator
							}
							if got != want {
								mu.Lock()
								if first == nil {
									first = &pairCase{Right: rr, Path: p, Admin: admin, Column: colName, History: [][2]string{{pull, push}}, Got: got, Want: want}
								}
								mu.Unlock()
								return
							}
						}
					}
				}
			}
			auth.Del(name)
			atomic.AddInt64(&evals, le)
			atomic.AddInt64(&nt, ln)
		}(w)
	}
	wg.Wait()
	evid.Eval(evals)
	evid.NontrivialN(nt)
	evid.ClassN("admin-default pairs (one column empty)", nt)
	if first != nil {
		evid.Violation(t, "admin-default", first, "user (admin=%v pull/push=%q): right %q on path %q column %s: ValidatePermission=%v, reference=%v",
			first.Admin, first.History, first.Right, first.Path, first.Column, first.Got, first.Want)
	}
}

// Documented examples from docs/config.md §3.2 — the anchor that the reference
// matcher itself reads the guide correctly.
func TestReferenceMatchesGuideExamples(t *testing.T) {
	ex := []struct {
		right, path string
		want        bool
	}{
		{"/a", "/a", true}, {"/a", "/a/b", false},
		{"/a/*", "/a", true}, {"/a/*", "/a/b", true}, {"/a/*", "/a/c", true}, {"/a/*", "/a/b/c", true},
		{"/a/+/c/*", "a/b/c", true}, {"/a/+/c/*", "a/d/c", true}, {"/a/+/c/*", "a/b/c/d", true}, {"/a/+/c/*", "a/b/c/d/e", true},
		{"/a/+/c/*", "a/c", false},
		{"/test/*;/rooms/*", "/rooms/1/entrance", true}, {"/rooms/+/entrance", "/rooms/1/entrance", true},
		{"/rooms/+/entrance", "/rooms/entrance", false}, {"*", "/anything/at/all", true}, {"", "/a", false},
	}
	for _, e := range ex {
		if got := refmodel.Permits(e.right, false, e.path); got != e.want {
			t.Fatalf("reference matcher disagrees with the guide: %q on %q = %v", e.right, e.path, got)
		}
		evid.Eval(1)
	}
	if !refmodel.Permits("", true, "/x") {
		t.Fatalf("administrator with empty right must get '*'")
	}
}

// TestReplayFile re-checks one saved pair without any enumeration.
func TestReplayFile(t *testing.T) {
	p := os.Getenv("VERIF_REPLAY_FILE")
	if p == "" {
		t.Skip("no replay file")
	}
	b, err := os.ReadFile(p)
	if err != nil {
		t.Fatal(err)
	}
	var doc struct {
		Case pairCase `json:"case"`
	}
	if err := json.Unmarshal(b, &doc); err != nil {
		t.Fatal(err)
	}
	c := doc.Case
	name := "c16replay"
	var u *auth.User
	for i, h := range c.History {
		u = install(name, h[0], h[1], c.Admin, i > 0)
	}
	if u == nil {
		t.Fatal("empty history")
	}
	ar := auth.PullRight
	if c.Column == "push" {
		ar = auth.PushRight
	}
	got, want := u.ValidatePermission(c.Path, ar), refmodel.Permits(c.Right, c.Admin, c.Path)
	if got != want {
		t.Fatalf("right %q on %q: got %v want %v", c.Right, c.Path, got, want)
	}
}
