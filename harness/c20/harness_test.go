// C20 — on-demand pull creates, serves and cleans up streams under any camera
// behaviour. This file holds the scenario runner and the oracle; prop_test.go
// holds the enumeration, the generated scenarios and the concurrency checks.
//
// A scenario = one scripted fake camera (lib/fakecam, written from RFC 2326 /
// RFC 2617, no ipchub code) + one route to it + one request for the routed path
// (directly through media.GetOrCreate, or through the in-process server).
// The oracle is computed from the camera's own record and from the registry /
// counters / goroutine profile, never from pull_client's view.
package c20

import (
	"fmt"
	"net/url"
	"os"
	"runtime"
	"runtime/debug"
	"sort"
	"strings"
	"sync"
	"time"

	"github.com/cnotch/ipchub/av/format/rtp"
	"github.com/cnotch/ipchub/config"
	"github.com/cnotch/ipchub/media"
	"github.com/cnotch/ipchub/provider/route"
	_ "github.com/cnotch/ipchub/service/rtsp" // registers the RTSP pull factory (init)
	"github.com/cnotch/ipchub/stats"
	"verif/harness/lib/evid"
	"verif/harness/lib/fakecam"
	"verif/harness/lib/mediah"
	"verif/harness/lib/refmodel"
	"verif/harness/lib/rtppack/esgen"
	"verif/harness/lib/sched"
)

// Timeouts installed through config.VerifTimeouts. Scenarios in which the
// camera falls silent use the short pair so that the server's own timeout ends
// them quickly; all others use the long net timeout so that machine load can
// never fire it by accident.
const (
	shortPlay = 800 * time.Millisecond // play-phase timeout when the camera goes quiet at the end (harness steps happen inside it)
	shortNet  = 300 * time.Millisecond
	longNet   = 20 * time.Second
	heartbeat = 40 * time.Millisecond
	// bound for "eventually": two orders of magnitude above the latencies involved.
	bound = 10 * time.Second
)

type scenario struct {
	Name  string                              `json:"name"`
	Steps [fakecam.NumSteps]fakecam.Behaviour `json:"steps"`
	Audio bool                                `json:"audio"`
	// Creds: "right" (route URL carries what the camera expects), "none" (no
	// userinfo in the route URL), "wrong" (another password), "md5cam" (the camera
	// stores hex(MD5(password)) as its password, the URL carries the clear one).
	Creds          string `json:"creds"`
	User           string `json:"user"`
	Pass           string `json:"pass"`
	DirRoute       bool   `json:"dir_route"`      // the route is a directory pattern, the request goes below it
	TrailingSlash  bool   `json:"trailing_slash"` // directory route URL ends in '/'
	MixedCase      bool   `json:"mixed_case"`     // the request spells the path with upper-case letters
	URLShape       string `json:"url_shape"`      // exact routes: "" = /live/ch1, "nopath" = rtsp://host:port, "root" = rtsp://host:port/, "query" = /cam/realmonitor?channel=1&subtype=0, "deep" = /a/b/c.sdp
	SessionTimeout bool   `json:"session_timeout"`
	CacheGop       bool   `json:"cache_gop"`
	Initial        int    `json:"initial"`     // frames right after PLAY
	Consumers      int    `json:"consumers"`   // recording consumers attached after success
	Live           int    `json:"live"`        // frames sent once the consumers are attached
	Paced          bool   `json:"paced"`       // live frames are spaced beyond the heartbeat interval (keep-alives flow)
	End            int    `json:"end"`         // fakecam.After that ends the play phase; Continue = the server side closes the stream
	EndVariant     int    `json:"end_variant"` // garbage form
	AutoFinish     bool   `json:"auto_finish"` // End happens right after the initial frames, racing the registration
	Mode           string `json:"mode"`        // "direct" | "rtsp" | "flv" | "hls"
	FollowUp       bool   `json:"follow_up"`   // request again with an all-ok camera afterwards
	GluePlay       int    `json:"glue_play"`   // this many frames travel in the same TCP write as the PLAY answer
	GlueKA         int    `json:"glue_ka"`     // this many frames travel in the same write as a keep-alive answer ...
	KAGlues        int    `json:"ka_glues"`    // ... for the first KAGlues keep-alive requests
	BigFrames      bool   `json:"big_frames"`  // slices of ~1 KiB, so that a few frames show in the stream's KiB counter
	// SDPShape: "" = video (+ audio when Audio), "audio-only" = one AAC section,
	// "audio-first" = audio listed before video, "three" = video, audio and an
	// application/metadata section the pull has to leave alone.
	SDPShape string `json:"sdp_shape"`
	Base     string `json:"base"`    // fakecam.Script.ContentBase: which base headers the DESCRIBE answer carries
	Control  string `json:"control"` // fakecam.Script.ControlForm: how a=control values are advertised
	Remap    bool   `json:"remap"`   // the camera grants other interleaved pairs than asked (outside the pull client's domain: counted, outcome open)

	frames []fakecam.Frame // generated programme; nil = fakecam.SimpleFrames
}

func (sc *scenario) key() string {
	var b strings.Builder
	for i, s := range sc.Steps {
		if s.Kind != fakecam.OK {
			fmt.Fprintf(&b, "%s=%s ", fakecam.Step(i), s)
		}
	}
	if sc.URLShape != "" {
		fmt.Fprintf(&b, "url=%s ", sc.URLShape)
	}
	if sc.Base != "" || sc.Control != "" {
		fmt.Fprintf(&b, "content-base=%s control=%s ", sc.Base, sc.Control)
	}
	if sc.SDPShape != "" || sc.Remap {
		fmt.Fprintf(&b, "sdp=%s remap=%v ", sc.SDPShape, sc.Remap)
	}
	if sc.GluePlay > 0 || sc.GlueKA > 0 {
		fmt.Fprintf(&b, "glue-play=%d glue-keepalive=%dx%d ", sc.GluePlay, sc.GlueKA, sc.KAGlues)
	}
	fmt.Fprintf(&b, "audio=%v creds=%s dir=%v end=%s/%d auto=%v cons=%d live=%d paced=%v mode=%s", sc.Audio, sc.Creds, sc.DirRoute, fakecam.After(sc.End), sc.EndVariant, sc.AutoFinish, sc.Consumers, sc.Live, sc.Paced, sc.Mode)
	return b.String()
}

// expectation of the handshake outcome, derived from the script alone.
type expectation int

const (
	mustSucceed expectation = iota
	mustFail
	either // the statement does not fix the outcome (tolerable malformation, repeated challenges)
)

func (e expectation) String() string { return [...]string{"must-succeed", "must-fail", "either"}[e] }

// steps a client walks through for this script.
func (sc *scenario) walk() []fakecam.Step {
	w := []fakecam.Step{fakecam.Accept, fakecam.Options, fakecam.Describe}
	if sc.SDPShape != "audio-only" {
		w = append(w, fakecam.SetupVideo)
	}
	if sc.hasAudio() {
		w = append(w, fakecam.SetupAudio)
	}
	return append(w, fakecam.Play)
}

func (sc *scenario) hasAudio() bool { return sc.Audio || sc.SDPShape != "" }

// sdp builds the session description of the scenario's shape from the
// repository's real parameter sets (mediah.SDP).
func (sc *scenario) sdp() string {
	full := mediah.SDP(esgen.H264, true)
	vi, ai := strings.Index(full, "m=video"), strings.Index(full, "m=audio")
	head, video, audio := full[:vi], full[vi:ai], full[ai:]
	switch sc.SDPShape {
	case "audio-only":
		return head + audio
	case "audio-first":
		return head + audio + video
	case "three":
		return head + video + audio + "m=application 0 RTP/AVP 107\r\na=rtpmap:107 vnd.onvif.metadata/90000\r\na=control:streamid=2\r\n"
	}
	return mediah.SDP(esgen.H264, sc.Audio)
}

// expect also returns the step at which the first deviation from "ok" lies (-1: none)
// and how many steps before it went well.
func (sc *scenario) expect() (e expectation, faultStep fakecam.Step, okBefore int) {
	faultStep = -1
	for _, st := range sc.walk() {
		b := sc.Steps[st]
		switch b.Kind {
		case fakecam.OK:
			if st != fakecam.Accept {
				okBefore++
			}
			continue
		case fakecam.Basic401, fakecam.Digest401:
			switch {
			case sc.Creds == "none" || sc.Creds == "wrong":
				return mustFail, st, okBefore
			case sc.Creds == "right" && b.N == 1:
				okBefore++
				if faultStep < 0 {
					faultStep = st
				}
				continue // challenged once, answered: the handshake goes on
			default:
				return either, st, okBefore
			}
		case fakecam.Status, fakecam.Silence, fakecam.RST, fakecam.EOF, fakecam.Refuse:
			return mustFail, st, okBefore
		default:
			return either, st, okBefore
		}
	}
	if sc.Remap {
		return either, fakecam.SetupVideo, okBefore
	}
	return mustSucceed, faultStep, okBefore
}

// closeAcceptable: the server may hang up on a requester in the middle of its
// handshake exactly when the camera deviates at some step or ends the play phase
// by itself (the pulled stream ends under the requester); a camera that keeps
// playing healthy frames gives no reason for it.
func (sc *scenario) closeAcceptable() bool {
	e, _, _ := sc.expect()
	return e != mustSucceed || (sc.AutoFinish && fakecam.After(sc.End) != fakecam.Continue)
}

// handshakeMayStall: some step may leave the client waiting for bytes that never
// come (silence, or a malformed answer that announces more than it delivers).
func (sc *scenario) handshakeMayStall() bool {
	for _, st := range sc.walk() {
		switch sc.Steps[st].Kind {
		case fakecam.Silence, fakecam.BadHeaders, fakecam.BadStatusLine, fakecam.GarbageSDP, fakecam.FormatlessSDP, fakecam.Garbage:
			return true
		}
	}
	return false
}

// playMayStall: the play phase ends with the camera going quiet.
func (sc *scenario) playMayStall() bool {
	return fakecam.After(sc.End) == fakecam.AfterSilence || (fakecam.After(sc.End) == fakecam.AfterGarbage && sc.EndVariant%fakecam.GarbageVariants == 3)
}

// ---------------------------------------------------------------- process-wide observations

var ipchubPrefix = "github.com/cnotch/ipchub/"

// streamGoroutines returns, per root function, the number of goroutines that
// run ipchub code and do not belong to the harness itself (requesters are
// judged separately). With detail, the full stacks are returned too.
func streamGoroutines(detail bool) (map[string]int, string) {
	buf := make([]byte, 1<<20)
	for {
		n := runtime.Stack(buf, true)
		if n < len(buf) {
			buf = buf[:n]
			break
		}
		buf = make([]byte, 2*len(buf))
	}
	out := map[string]int{}
	var dump strings.Builder
	for _, blk := range strings.Split(string(buf), "\n\n") {
		if !strings.Contains(blk, ipchubPrefix) || strings.Contains(blk, "verif/harness/c20.") || strings.Contains(blk, "verif/harness/lib/") {
			continue
		}
		root := ""
		for _, l := range strings.Split(blk, "\n") {
			if strings.HasPrefix(l, ipchubPrefix) {
				root = l
			}
			if strings.HasPrefix(l, "created by "+ipchubPrefix) {
				root = strings.TrimPrefix(l, "created by ")
				if i := strings.Index(root, " in goroutine"); i > 0 {
					root = root[:i]
				}
			}
		}
		if i := strings.LastIndex(root, "("); i > 0 && strings.HasSuffix(root, ")") {
			root = root[:i]
		}
		root = strings.TrimPrefix(root, ipchubPrefix)
		// the server's permanent goroutines (listener, protocol multiplexer, signal
		// hook) come up asynchronously after start and belong to no stream or session
		if strings.HasPrefix(root, "service.(*Service).") || strings.HasPrefix(root, "network/socket/listener.(*Listener).") {
			continue
		}
		out[root]++
		if detail {
			dump.WriteString(blk)
			dump.WriteString("\n\n")
		}
	}
	return out, dump.String()
}

// stacksMatching returns the stacks of all goroutines whose trace contains pat.
func stacksMatching(pat string) string {
	buf := make([]byte, 4<<20)
	buf = buf[:runtime.Stack(buf, true)]
	var out strings.Builder
	for _, blk := range strings.Split(string(buf), "\n\n") {
		if strings.Contains(blk, pat) {
			out.WriteString(blk)
			out.WriteString("\n\n")
		}
	}
	return out.String()
}

// socketFDs counts the socket descriptors of this process.
func socketFDs() int {
	ents, err := os.ReadDir("/proc/self/fd")
	if err != nil {
		return -1
	}
	n := 0
	for _, e := range ents {
		if l, err := os.Readlink("/proc/self/fd/" + e.Name()); err == nil && strings.HasPrefix(l, "socket:") {
			n++
		}
	}
	return n
}

type baseline struct {
	streams, consumers int
	rtspActive         int64
	gor                map[string]int
	fds                int
}

func takeBaseline() baseline {
	var b baseline
	b.streams, b.consumers = media.Count()
	b.rtspActive = stats.RtspConns.GetSample().Active
	b.gor, _ = streamGoroutines(false)
	b.fds = socketFDs()
	return b
}

// waitSlow polls an expensive condition (goroutine profile, /proc) every 2 ms.
func waitSlow(d time.Duration, cond func() bool) bool {
	deadline := time.Now().Add(d)
	for !cond() {
		if time.Now().After(deadline) {
			return false
		}
		time.Sleep(2 * time.Millisecond)
	}
	return true
}

func gorExcess(now, base map[string]int) string {
	var ks []string
	for k, v := range now {
		if v > base[k] {
			ks = append(ks, fmt.Sprintf("%s: %d (before: %d)", k, v, base[k]))
		}
	}
	sort.Strings(ks)
	return strings.Join(ks, "; ")
}

// ---------------------------------------------------------------- scenario runner

var pathSeq struct {
	sync.Mutex
	n int
}

func nextID() int { pathSeq.Lock(); defer pathSeq.Unlock(); pathSeq.n++; return pathSeq.n }

type fail struct {
	check string
	msg   string
}

type result struct {
	outcome    string // "stream" | "nil" | "panic" | "hang"
	failures   []fail
	cam        []fakecam.ConnRecord
	regAtOnce  bool // the stream was in the registry the moment the request returned
	keepAlives int
	delivered  int
	gluedPlay  int
	gluedKA    int
}

func (r *result) failf(check, format string, a ...any) {
	r.failures = append(r.failures, fail{check, fmt.Sprintf(format, a...)})
}

func stripUserinfo(u string) string {
	const p = "rtsp://"
	if !strings.HasPrefix(u, p) {
		return u
	}
	rest := u[len(p):]
	auth := rest
	if i := strings.IndexAny(rest, "/?"); i >= 0 {
		auth = rest[:i]
	}
	if i := strings.LastIndexByte(auth, '@'); i >= 0 {
		return p + rest[i+1:]
	}
	return u
}

type requester interface {
	// request asks for path and reports "stream" (with the stream when the mode
	// can name it), "nil" for a not-found style answer, or "panic". arm installs
	// the scenario's handshake timeouts; the requester calls it once its own
	// connection to the server exists (server sessions copy the timeout when they
	// are accepted).
	request(path string, arm func()) (outcome string, s *media.Stream, detail string)
	// verifyWire checks what the requester itself received once the camera has
	// sent its live frames ("" = fine or not applicable).
	verifyWire(sentAll, live []fakecam.Frame, push func() *fakecam.Frame) string
	// release ends the requester's own connection to the server.
	release()
	// setFeed hands the requester a way to make the camera send one more frame
	// while it waits for its answer (HTTP answers only leave the server once
	// enough body bytes have accumulated).
	setFeed(feed func())
}

type directRequester struct{}

func (directRequester) request(path string, arm func()) (outcome string, s *media.Stream, detail string) {
	defer func() {
		if r := recover(); r != nil {
			outcome, detail = "panic", fmt.Sprintf("%v\n%s", r, stacksMatching("c20.directRequester"))
		}
	}()
	arm()
	s = media.GetOrCreate(path)
	if s == nil {
		return "nil", nil, ""
	}
	return "stream", s, ""
}
func (directRequester) verifyWire(sentAll, live []fakecam.Frame, push func() *fakecam.Frame) string {
	return ""
}
func (directRequester) release()            {}
func (directRequester) setFeed(feed func()) {}

func framesFor(sc *scenario) []fakecam.Frame {
	if sc.frames != nil {
		return sc.frames
	}
	extra := 8
	if sc.Mode == "rtsp" { // material to push the player connection's buffered tail out (up to a second)
		extra = 60
	}
	if sc.Mode == "flv" { // the feeder needs material until the HTTP answer is flushed
		extra = 800
	}
	extra += sc.GlueKA * sc.KAGlues
	if sc.BigFrames {
		return fakecam.SimpleFramesSized(sc.Initial+sc.Live+extra, sc.hasAudio(), 3000, 900)
	}
	n := sc.Initial + sc.Live + extra
	if sc.SDPShape == "audio-only" { // the camera leaves out the video frames: more material
		n *= 4
	}
	return fakecam.SimpleFrames(n, sc.hasAudio())
}

// routeFor installs the route of a scenario and returns the request path, the
// canonical path and the URL the camera must see in DESCRIBE.
func routeFor(sc *scenario, id int, hostport string, userinfo string) (reqPath, canon, wantURL, pattern string) {
	at := ""
	if userinfo != "" {
		at = userinfo + "@"
	}
	var ref refmodel.RouteTable
	if sc.DirRoute {
		pattern = fmt.Sprintf("/c20/s%d/dir/", id)
		u := "rtsp://" + at + hostport + "/base"
		if sc.TrailingSlash {
			u += "/"
		}
		route.Save(&route.Route{Pattern: pattern, URL: u})
		ref.Save(pattern, u, false)
		reqPath = pattern + "sub/cam1"
	} else {
		pattern = fmt.Sprintf("/c20/s%d/cam", id)
		u := "rtsp://" + at + hostport + map[string]string{"": "/live/ch1", "nopath": "", "root": "/", "query": "/cam/realmonitor?channel=1&subtype=0", "deep": "/a/b/c.sdp"}[sc.URLShape]
		route.Save(&route.Route{Pattern: pattern, URL: u})
		ref.Save(pattern, u, false)
		reqPath = pattern
	}
	canon = refmodel.Canon(reqPath)
	m, ok := ref.Match(reqPath)
	if !ok {
		panic("reference resolver does not match the route just saved")
	}
	wantURL = stripUserinfo(m.URL)
	if sc.MixedCase {
		reqPath = strings.ToUpper(reqPath[:5]) + reqPath[5:]
	}
	return
}

func userinfoFor(sc *scenario) (info string, camPass string, md5 bool) {
	switch sc.Creds {
	case "none":
		return "", sc.Pass, false
	case "wrong":
		return url.UserPassword(sc.User, sc.Pass+"x").String(), sc.Pass, false
	case "md5cam":
		return url.UserPassword(sc.User, sc.Pass).String(), sc.Pass, true
	}
	return url.UserPassword(sc.User, sc.Pass).String(), sc.Pass, false
}

func okScript(audio bool, frames []fakecam.Frame, initial int) fakecam.Script {
	return fakecam.Script{SDP: mediah.SDP(esgen.H264, audio), Frames: frames, Initial: initial, User: "u", Pass: "p", StrictSetup: true}
}

// runScenario executes one scenario and returns every oracle failure (empty =
// the property held for it).
func runScenario(sc *scenario, rq requester) *result {
	res := &result{}
	id := nextID()
	// a connection that is leaked without a goroutine holding it would be closed by
	// its finalizer at the next collection: no collection while the scenario runs
	defer debug.SetGCPercent(debug.SetGCPercent(-1))
	server().SetCacheGop(sc.CacheGop)
	defer rq.release()
	// the handshake reads take the timeout in force at each read, the play loop the
	// one in force when it starts: the camera switches it when PLAY arrives
	config.VerifTimeouts(longNet, heartbeat)
	arm := func() {
		if sc.handshakeMayStall() {
			config.VerifTimeouts(shortNet, heartbeat)
		}
	}
	playTimeout := longNet
	if sc.playMayStall() {
		playTimeout = shortPlay
	}
	switch sc.Steps[fakecam.Play].Kind {
	case fakecam.Silence, fakecam.BadHeaders, fakecam.BadStatusLine:
		// the switch happens when PLAY arrives at the camera, which may be before the
		// client has armed the deadline for the PLAY answer: that answer may never come
		playTimeout = shortPlay
	}
	base := takeBaseline()

	info, camPass, md5 := userinfoFor(sc)
	if sc.Initial < sc.GluePlay {
		sc.Initial = sc.GluePlay
	}
	frames := framesFor(sc)
	script := fakecam.Script{Steps: sc.Steps, User: sc.User, Pass: camPass, PassIsMD5: md5, SDP: sc.sdp(), RemapChannels: sc.Remap,
		StrictSetup: true, ContentBase: sc.Base, ControlForm: sc.Control,
		Frames: frames, Initial: sc.Initial, SessionTimeout: sc.SessionTimeout,
		GluePlay: sc.GluePlay, GlueKeepAlive: sc.GlueKA, KeepAliveGlues: sc.KAGlues,
		OnPlay: func() { config.VerifTimeouts(playTimeout, heartbeat) }}
	if sc.AutoFinish {
		script.AutoFinish, script.AutoFinishVariant = fakecam.After(sc.End), sc.EndVariant
	}
	cam, err := fakecam.Start(script)
	if err != nil {
		res.failf("harness", "camera did not start: %v", err)
		return res
	}
	camClosed := false
	closeCam := func() {
		if !camClosed {
			camClosed = true
			cam.Close()
		}
	}
	defer closeCam()
	reqPath, canon, wantURL, pattern := routeFor(sc, id, cam.HostPort(), info)
	defer route.Del(pattern)

	// a recording consumer that is attached the moment the pulled stream enters the
	// registry (schedule point inside media.Regist, before the play loop starts):
	// it must see every frame the camera sends, from the very first one
	rec0 := mediah.NewRec("from-start")
	var rec0Stream *media.Stream
	media.VerifSetSched(func(point string, obj interface{}) {
		if st, ok := obj.(*media.Stream); ok && point == "regist.loaded" && rec0Stream == nil && st.Path() == canon {
			rec0Stream = st
			st.StartConsumeNoGopCache(rec0, media.RTPPacket, "c20-from-start")
		}
	})
	defer media.VerifSetSched(nil)

	exp, _, _ := sc.expect()
	rq.setFeed(func() {
		// (what the answer waits for is the server's turn, not more material: keep a reserve for the live phase)
		if cam.NextFrame(-1) < len(frames)-150 {
			cam.Send(-1, 16, 0)
		}
	})

	// ---- the request
	type ret struct {
		outcome, detail string
		s               *media.Stream
	}
	done := make(chan ret, 1)
	go func() {
		o, s, d := rq.request(reqPath, arm)
		done <- ret{o, d, s}
	}()
	var r ret
	select {
	case r = <-done:
	case <-time.After(bound):
		// no progress is possible when the requester sits in a read without deadline
		res.outcome = "hang"
		res.failf("requester-hangs", "the request for %s did not return within %v (net timeout %v); requester/pull goroutines:\n%s", reqPath, bound, config.NetTimeout(), stacksMatching("PullClient")+stacksMatching("c20.(*")+stacksMatching("rtsp.(*Session)"))
		closeCam() // lets the blocked read fail so that the process can go on
		select {
		case r = <-done:
		case <-time.After(bound):
			res.failf("requester-hangs", "the request did not even return after the camera hung up")
			return res
		}
		res.cam = cam.Conns()
		rq.release()
		cleanupChecks(res, sc, base, cam, canon, nil, true)
		return res
	}
	res.outcome = r.outcome
	if r.outcome == "panic" {
		res.failf("requester-panics", "the request for %s panicked instead of returning a not-found style result: %s", reqPath, r.detail)
	}
	if r.outcome == "closed" {
		evid.Class("requester saw close during handshake")
		if sc.closeAcceptable() {
			// "a not-found style error or an orderly close": everything else is still owed
			for i := 0; i < cam.ConnCount() && !sc.playMayStall(); i++ {
				cam.Finish(i, fakecam.AfterEOF, 0) // (a tolerated garbage ending leaves the camera playing)
			}
		} else {
			res.cam = cam.Conns()
			res.failf("pull-fails", "the camera stays healthy and keeps playing, but the server closed the requester's connection during the handshake (%s); camera saw: %s", r.detail, renderConns(res.cam))
		}
	}
	if r.outcome == "nil" && exp == mustSucceed && sc.AutoFinish && fakecam.After(sc.End) == fakecam.AfterRST {
		// a reset discards what the peer has not read yet: the PLAY answer the camera
		// wrote just before may never be seen, and the pull then fails at PLAY — "the
		// camera disconnects at a step", with a not-found answer
		evid.Class("camera reset right behind its PLAY answer: requester got not-found")
	} else if exp == mustSucceed && r.outcome != "stream" && r.outcome != "closed" {
		res.cam = cam.Conns()
		res.failf("pull-fails", "every step of the camera was ok (or challenged once with the credentials of the route URL), but the request ended with %q; camera saw: %s", r.outcome, renderConns(res.cam))
	}
	if exp == mustFail && r.outcome == "stream" {
		res.cam = cam.Conns()
		res.failf("pull-succeeds-against-refusal", "the camera refused / stalled / hung up during the handshake, but the request produced a stream; camera saw: %s", renderConns(res.cam))
	}

	var recs []*mediah.Rec
	if r.outcome == "nil" && exp == either && sc.Mode != "direct" && sc.Mode != "" && media.Get(canon) != nil {
		// the pull went through (the deviation was tolerable); it is the requester's
		// container format that this stream cannot be converted to
		r.outcome, res.outcome = "stream", "stream, but not in the requester's format"
	}
	if r.outcome == "stream" {
		playPhase(res, sc, rq, cam, r.s, canon, wantURL, frames, &recs, rec0, rec0Stream)
	}
	media.VerifSetSched(nil)
	if rec0Stream != nil {
		recs = append(recs, rec0)
	}
	res.cam = cam.Conns()
	rq.release()
	cleanupChecks(res, sc, base, cam, canon, recs, false)
	closeCam()
	// descriptors: everything the scenario opened is closed again
	if !waitSlow(bound/2, func() bool { return socketFDs() <= base.fds }) {
		res.failf("socket-leak", "%d socket descriptors are open after the scenario, %d before (the camera has closed all of its own)", socketFDs(), base.fds)
	}
	if sc.FollowUp && len(res.failures) == 0 {
		frq := requesterFor(sc.Mode)
		if sc.Mode == "hls" { // a playlist request for a live stream waits seconds for segments
			frq = requesterFor("rtsp")
		}
		followUp(res, sc, frq, id, reqPath, canon)
	}
	return res
}

func renderConns(cs []fakecam.ConnRecord) string {
	var b strings.Builder
	for i, c := range cs {
		fmt.Fprintf(&b, "[conn %d:", i)
		for _, r := range c.Requests {
			fmt.Fprintf(&b, " %s %s", r.Method, r.Answer)
			if r.AuthScheme != "" {
				fmt.Fprintf(&b, "(%s ok=%v %s)", r.AuthScheme, r.AuthOK, r.AuthWhy)
			}
			b.WriteString(";")
		}
		fmt.Fprintf(&b, " playOK=%v peerClosed=%v(%s) self=%s sent=%d parseErr=%q]", c.PlayOK, c.PeerClosed, c.PeerCloseHow, c.SelfClosed, c.FramesSent, c.ParseError)
	}
	return b.String()
}

// playPhase checks the success half of the property and then ends the stream
// the way the scenario says.
func playPhase(res *result, sc *scenario, rq requester, cam *fakecam.Camera, s *media.Stream, canon, wantURL string, frames []fakecam.Frame, recs *[]*mediah.Rec, rec0 *mediah.Rec, rec0Stream *media.Stream) {
	end := fakecam.After(sc.End)
	racing := sc.AutoFinish && end != fakecam.Continue // the camera may already be gone
	// (1) registered under the requested path
	if s == nil { // the requester is a network client: it cannot name the stream
		s = media.Get(canon)
		if s == nil && !racing {
			res.failf("not-registered-on-return", "the requester got a positive answer, but media.Get(%s) = nil at that moment", canon)
		}
	}
	if s != nil {
		res.regAtOnce = media.Get(canon) == s
		if !racing && !res.regAtOnce {
			res.failf("not-registered-on-return", "the request returned a stream, but media.Get(%s) at that moment = %v: the stream is not under the requested path", canon, media.Get(canon))
		}
	}
	// (2) the camera saw DESCRIBE for the reference URL; (3) credentials verify
	conns := cam.Conns()
	if len(conns) != 1 && (sc.Mode == "direct" || sc.Mode == "" || !racing) {
		// (an RTSP player's DESCRIBE and PLAY each look the stream up: when the camera
		// hangs up in between, the second look-up pulls again — that is the property)
		res.failf("connection-count", "one request made %d connections to the camera", len(conns))
	}
	seenDescribe := false
	for _, c := range conns {
		for _, r := range c.Requests {
			if r.Method == "DESCRIBE" {
				seenDescribe = true
				if r.URL != wantURL {
					res.failf("describe-url", "DESCRIBE asked for %q, the reference resolver (C17) gives %q", r.URL, wantURL)
				}
			}
			if strings.Contains(r.URL, "@") {
				res.failf("describe-url", "%s carries userinfo in its Request-URI: %q", r.Method, r.URL)
			}
			if sc.Creds == "right" && r.AuthScheme != "" && r.AuthScheme == r.InForce && !r.AuthOK {
				res.failf("credentials", "%s %s: the %s credentials do not verify against the camera's RFC 2617 computation: %s", r.Method, r.URL, r.AuthScheme, r.AuthWhy)
			}
		}
	}
	if !seenDescribe {
		res.failf("describe-url", "a stream was produced but the camera never saw DESCRIBE: %s", renderConns(conns))
	}
	if racing && end == fakecam.AfterGarbage && sc.EndVariant%fakecam.GarbageVariants != 3 {
		cam.Finish(-1, fakecam.AfterEOF, 0) // whether or not the garbage was tolerated, the end comes
	}
	if s == nil || racing {
		return
	}
	// (4) packets reach consumers in order
	var cids []media.CID
	for i := 0; i < sc.Consumers; i++ {
		rec := mediah.NewRec(fmt.Sprintf("c20-%d", i))
		*recs = append(*recs, rec)
		cids = append(cids, s.StartConsumeNoGopCache(rec, media.RTPPacket, "c20"))
	}
	mediah.WaitFor(bound, func() bool { return cam.NextFrame(-1) >= min(sc.Initial, len(frames)) })
	first := cam.NextFrame(-1) // the initial frames, plus what a feeding requester asked for
	if first > len(frames) {
		first = len(frames)
	}
	rawLive := frames[first:]
	if sc.Live < len(rawLive) {
		rawLive = rawLive[:sc.Live]
	}
	// the camera only sends frames of tracks that were set up (a deviating SDP may have fewer)
	var up [2]bool
	if c := cam.Conns(); len(c) > 0 {
		up[0], up[1] = c[len(c)-1].Channels[0][0] >= 0, c[len(c)-1].Channels[1][0] >= 0
	}
	filter := func(fs []fakecam.Frame) (out []fakecam.Frame) {
		for _, f := range fs {
			if f.Track >= 0 && f.Track < 2 && up[f.Track] {
				out = append(out, f)
			}
		}
		return
	}
	live := filter(rawLive)
	sentAll := filter(frames[:first+len(rawLive)])
	if len(rawLive) > 0 && len(live) == 0 {
		cam.Send(-1, len(rawLive), 0)
	}
	if len(live) > 0 {
		gap := time.Duration(0)
		if sc.Paced {
			gap = heartbeat + heartbeat/2
		}
		if !cam.Send(-1, len(rawLive), gap) {
			res.failf("camera-write", "the camera could not send its live frames: %s", renderConns(cam.Conns()))
			return
		}
		lastLive := string(live[len(live)-1].Data)
		for ci, rec := range *recs {
			ok := waitLast(rec, len(live), lastLive)
			got := rec.Got()
			if !ok {
				res.failf("delivery", "consumer %d received %d packets and not the last of the %d the camera sent after it was attached", ci, len(got), len(live))
				continue
			}
			if why := compareDelivery(got, sentAll, len(live)); why != "" {
				res.failf("delivery", "consumer %d: %s", ci, why)
			}
			res.delivered += len(got)
		}
		pushed := first + len(rawLive)
		push := func() *fakecam.Frame { // one more frame of the programme (of a track that is set up)
			for pushed < len(frames) {
				f := frames[pushed]
				pushed++
				cam.Send(-1, 1, 0)
				if f.Track >= 0 && f.Track < 2 && up[f.Track] {
					return &f
				}
			}
			return nil
		}
		if why := rq.verifyWire(sentAll, live, push); why != "" {
			res.failf("delivery-wire", "%s", why)
		}
		_ = cids
	}
	if c := cam.Conns(); len(c) > 0 {
		res.keepAlives = c[len(c)-1].KeepAlives
		res.gluedPlay, res.gluedKA = c[len(c)-1].GluedWithPlay, c[len(c)-1].GluedWithKeepAlive
	}
	// (5) everything the camera has sent so far — including what travelled in the same
	// segment as the PLAY answer or a keep-alive answer — reached the consumer that was
	// there from the start, in order; the stream's byte counter agrees; the pull is up
	// (only where every answer of the handshake was well-formed: after a tolerated
	// malformation the byte stream may legitimately be out of step)
	if e, _, _ := sc.expect(); e == mustSucceed && rec0Stream == s && len(cam.Conns()) == 1 {
		// a stable snapshot: the camera's cursor does not move while the consumer's
		// list and the byte counter are read, and the consumer holds everything up to
		// the cursor (keep-alive answers may take frames at any moment)
		var want []fakecam.Frame
		var got []media.Pack
		kib := 0
		settled := mediah.WaitFor(bound, func() bool {
			n := cam.NextFrame(-1)
			want = filter(frames[:min(n, len(frames))])
			if rec0.Len() < len(want) {
				return false
			}
			got = rec0.Got()
			kib = s.Info(false).Size
			return cam.NextFrame(-1) == n && len(got) == len(want)
		})
		if !settled {
			res.failf("delivery-from-start", "the camera has sent %d frames (%d in the PLAY answer's write, %d in keep-alive answers' writes); the consumer attached before the play loop started received %d", len(want), res.gluedPlay, res.gluedKA, rec0.Len())
		} else if why := compareDelivery(got, want, len(want)); why != "" {
			res.failf("delivery-from-start", "consumer attached before the play loop started: %s", why)
		} else {
			bytes := 0
			for _, f := range want {
				bytes += len(f.Data) + 4 // interleaved unit: 4-byte prefix + packet
			}
			if kib != bytes/1024 {
				res.failf("byte-counter", "the camera sent %d bytes in %d interleaved units, the stream counts %d KiB (want %d)", bytes, len(want), kib, bytes/1024)
			}
		}
		if c := cam.Conns(); c[0].PeerClosed || media.Get(canon) != s {
			res.failf("pull-dropped", "all frames were well-formed and the camera is still sending, but the pull ended (peer closed=%v, registered=%v): %s", c[0].PeerClosed, media.Get(canon) == s, renderConns(c))
		}
	}
	// ---- end of the play phase
	switch end {
	case fakecam.Continue:
		// the server side ends it: the stream is closed, the next packet makes the pull loop notice
		s.Close()
		// frames of a track that is not set up are skipped by the camera: go on until
		// one has really been written (or the programme is exhausted)
		sentBefore := 0
		if c := cam.Conns(); len(c) > 0 {
			sentBefore = c[len(c)-1].FramesSent
		}
		for cam.NextFrame(-1) < len(frames) {
			if !cam.Send(-1, 4, 0) {
				break
			}
			if c := cam.Conns(); c[len(c)-1].FramesSent > sentBefore || c[len(c)-1].PeerClosed {
				break
			}
		}
	case fakecam.AfterGarbage:
		cam.Finish(-1, end, sc.EndVariant)
		if sc.EndVariant%fakecam.GarbageVariants != 3 {
			cam.Finish(-1, fakecam.AfterEOF, 0) // whether or not the garbage was tolerated, the end comes
		}
	default:
		cam.Finish(-1, end, sc.EndVariant)
	}
}

// waitLast waits until rec holds at least n packets and the newest is last.
func waitLast(rec *mediah.Rec, n int, last string) bool {
	return mediah.WaitFor(bound, func() bool {
		g := rec.Got()
		if len(g) < n {
			return false
		}
		p, _ := g[len(g)-1].(*rtp.Packet)
		return p != nil && string(p.Data) == last
	})
}

// compareDelivery: the consumer's packets must be a contiguous tail of what the
// camera sent so far — all minLive frames sent after it was attached, possibly
// preceded by frames that were still in flight when it attached — in order, on
// the right channel, bytes untouched.
func compareDelivery(got []media.Pack, sent []fakecam.Frame, minLive int) string {
	off := len(sent) - len(got)
	if off < 0 || len(got) < minLive {
		return fmt.Sprintf("received %d packets; the camera sent %d in all, %d of them after the consumer was attached", len(got), len(sent), minLive)
	}
	for i, g := range got {
		f := sent[off+i]
		p, ok := g.(*rtp.Packet)
		if !ok {
			return fmt.Sprintf("packet %d is a %T", i, g)
		}
		want := byte(rtp.ChannelVideo)
		switch {
		case f.Track == 0 && f.Control:
			want = rtp.ChannelVideoControl
		case f.Track == 1 && !f.Control:
			want = rtp.ChannelAudio
		case f.Track == 1:
			want = rtp.ChannelAudioControl
		}
		if string(p.Data) != string(f.Data) {
			return fmt.Sprintf("packet %d differs from frame %d the camera sent (order or bytes): got %s want %s", i, off+i, evid.Hex(p.Data), evid.Hex(f.Data))
		}
		if p.Channel != want {
			return fmt.Sprintf("packet %d arrived on channel %d, sent on the channel of %d", i, p.Channel, want)
		}
	}
	return ""
}

// cleanupChecks: nothing registered, counters back, connections closed by the
// server, consumers closed, no goroutine of the stream left.
func cleanupChecks(res *result, sc *scenario, base baseline, cam *fakecam.Camera, canon string, recs []*mediah.Rec, afterHang bool) {
	// one bound for the whole cleanup: when something is stuck, the checks behind it
	// only get a short extra look instead of a full bound each
	deadline := time.Now().Add(bound)
	left := func() time.Duration {
		if d := time.Until(deadline); d > 300*time.Millisecond {
			return d
		}
		return 300 * time.Millisecond
	}
	if !mediah.WaitFor(left(), func() bool { return media.Get(canon) == nil }) {
		res.failf("still-registered", "media.Get(%s) still returns a stream %v after the camera failed / the stream ended", canon, bound)
	}
	if !mediah.WaitFor(left(), func() bool { s, c := media.Count(); return s == base.streams && c == base.consumers }) {
		s, c := media.Count()
		res.failf("count-leak", "media.Count() = (%d streams, %d consumers), before the scenario (%d, %d)", s, c, base.streams, base.consumers)
	}
	if !mediah.WaitFor(left(), func() bool { return stats.RtspConns.GetSample().Active == base.rtspActive }) {
		res.failf("conn-count-leak", "stats.RtspConns.Active = %d, before the scenario %d", stats.RtspConns.GetSample().Active, base.rtspActive)
	}
	if !afterHang {
		for i, c := range cam.Conns() {
			if c.SelfClosed == "rst" || c.SelfClosed == "teardown" {
				continue // the camera's socket is gone; nothing to observe from its side
			}
			// (re-read: the camera may be about to reset the connection itself)
			i := i
			if !mediah.WaitFor(left(), func() bool {
				c := cam.Conns()[i]
				return c.PeerClosed || c.SelfClosed == "rst" || c.SelfClosed == "teardown" || c.SelfClosed == "teardown-request"
			}) {
				res.failf("connection-leak", "the camera never saw the server close connection %d (%v after the end); pull goroutines:\n%s", i, bound, stacksMatching("PullClient"))
			}
		}
	}
	for i, rec := range recs {
		if !mediah.WaitFor(left(), func() bool { return rec.Closed() >= 1 }) {
			res.failf("consumer-not-closed", "consumer %d of the ended stream was never closed", i)
		}
	}
	if !waitSlow(left(), func() bool { g, _ := streamGoroutines(false); return gorExcess(g, base.gor) == "" }) {
		g, dump := streamGoroutines(true)
		res.failf("goroutine-leak", "goroutines left behind: %s\n%s", gorExcess(g, base.gor), dump)
	}
}

// followUp: a later request for the same path pulls afresh from a healthy camera.
func followUp(res *result, sc *scenario, rq requester, id int, reqPath, canon string) {
	config.VerifTimeouts(longNet, heartbeat)
	base := takeBaseline()
	frames := fakecam.SimpleFrames(900, false)
	cam, err := fakecam.Start(okScript(false, frames, 2))
	if err != nil {
		res.failf("harness", "follow-up camera did not start: %v", err)
		return
	}
	defer cam.Close()
	ok := &scenario{DirRoute: sc.DirRoute, TrailingSlash: sc.TrailingSlash, Creds: "right", User: "u", Pass: "p"}
	_, _, wantURL, pattern := routeFor(ok, id, cam.HostPort(), "u:p")
	defer route.Del(pattern)
	defer rq.release()
	rq.setFeed(func() {
		// (what the answer waits for is the server's turn, not more material: keep a reserve for the live phase)
		if cam.NextFrame(-1) < len(frames)-150 {
			cam.Send(-1, 16, 0)
		}
	})
	o, s, d := rq.request(reqPath, func() {})
	if s == nil && o == "stream" {
		s = media.Get(canon)
	}
	if o != "stream" {
		res.failf("no-fresh-pull", "after the failed scenario a request for %s against a healthy camera ended with %q %s; camera saw: %s", reqPath, o, d, renderConns(cam.Conns()))
		return
	}
	if s != nil && !mediah.WaitFor(bound, func() bool { return media.Get(canon) == s }) {
		res.failf("no-fresh-pull", "follow-up stream not registered under %s", canon)
	}
	if c := cam.Conns(); len(c) != 1 || len(c[0].Requests) < 4 || c[0].Requests[1].URL != wantURL {
		res.failf("no-fresh-pull", "the healthy camera did not see a fresh handshake: %s", renderConns(c))
	}
	var recs []*mediah.Rec
	if s != nil {
		rec := mediah.NewRec("follow-up")
		recs = append(recs, rec)
		s.StartConsumeNoGopCache(rec, media.RTPPacket, "c20")
		mediah.WaitFor(bound, func() bool { return cam.NextFrame(-1) >= 2 })
		first := cam.NextFrame(-1)
		live := frames[first : first+5]
		cam.Send(-1, len(live), 0)
		if !waitLast(rec, len(live), string(live[len(live)-1].Data)) {
			res.failf("no-fresh-pull", "follow-up consumer received %d of %d packets", rec.Len(), len(live))
		} else if why := compareDelivery(rec.Got(), frames[:first+5], len(live)); why != "" {
			res.failf("no-fresh-pull", "follow-up delivery: %s", why)
		}
	}
	cam.Finish(-1, fakecam.AfterEOF, 0)
	var r2 result
	cleanupChecks(&r2, ok, base, cam, canon, recs, false)
	for _, f := range r2.failures {
		res.failf("follow-up/"+f.check, "%s", f.msg)
	}
}

// sequential issues n requests for one routed path, each as soon as the
// previous one returned.
func sequential(sc *scenario, n int) *result {
	res := &result{}
	id := nextID()
	server().SetCacheGop(false)
	config.VerifTimeouts(longNet, heartbeat)
	base := takeBaseline()
	info, camPass, md5 := userinfoFor(sc)
	frames := framesFor(sc)
	script := fakecam.Script{Steps: sc.Steps, User: sc.User, Pass: camPass, PassIsMD5: md5, SDP: mediah.SDP(esgen.H264, sc.Audio), Frames: frames, Initial: sc.Initial, StrictSetup: true}
	cam, err := fakecam.Start(script)
	if err != nil {
		res.failf("harness", "camera did not start: %v", err)
		return res
	}
	defer cam.Close()
	reqPath, canon, _, pattern := routeFor(sc, id, cam.HostPort(), info)
	defer route.Del(pattern)
	var streams []*media.Stream
	for i := 0; i < n; i++ {
		s := media.GetOrCreate(reqPath)
		if s == nil {
			res.failf("pull-fails", "request %d of %d for %s against a healthy camera returned nil; camera saw: %s", i+1, n, reqPath, renderConns(cam.Conns()))
			break
		}
		if got := media.Get(canon); got != s {
			res.failf("not-registered-on-return", "request %d returned a stream, but media.Get(%s) at that moment = %v: the stream is not (yet) under the requested path", i+1, canon, got)
		}
		streams = append(streams, s)
	}
	for i := 1; i < len(streams); i++ {
		if streams[i] != streams[0] {
			res.failf("second-pull", "request %d got another stream than request 1 although that one was alive", i+1)
		}
	}
	if c := cam.ConnCount(); c != 1 && len(streams) > 0 {
		res.failf("second-pull", "%d requests in a row for %s made %d connections to the camera: %s", n, reqPath, c, renderConns(cam.Conns()))
	}
	for i := 0; i < cam.ConnCount(); i++ {
		cam.Finish(i, fakecam.AfterEOF, 0)
	}
	cleanupChecks(res, sc, base, cam, canon, nil, false)
	return res
}

// ---------------------------------------------------------------- simultaneous first requests

type concurrentCase struct {
	Modes    []string `json:"modes"`    // one requester per entry: "direct" | "rtsp" | "flv"
	Injected bool     `json:"injected"` // request k+1 runs entirely inside request k's window between the registry miss and the pull (getorcreate.missed)
	Digest   bool     `json:"digest"`   // the camera challenges DESCRIBE once
	Audio    bool     `json:"audio"`
	// Failing != "": the camera does not deliver ("describe-404" | "describe-eof" |
	// "options-rst" | "setup-500"): every one of the simultaneous requests gets its
	// not-found answer, none hangs, nothing stays registered (after seeded change C20-R6B)
	Failing string `json:"failing_camera,omitempty"`
}

func (c *concurrentCase) key() string {
	return fmt.Sprintf("modes=%v injected=%v digest=%v audio=%v failing=%s", c.Modes, c.Injected, c.Digest, c.Audio, c.Failing)
}

type concurrentResult struct {
	result
	pulls int
	fired int
}

func concurrent(cc *concurrentCase) *concurrentResult {
	res := &concurrentResult{}
	id := nextID()
	server().SetCacheGop(false)
	config.VerifTimeouts(longNet, heartbeat)
	base := takeBaseline()
	sc := &scenario{Audio: cc.Audio, Creds: "right", User: "admin", Pass: "pw", Initial: 2}
	if cc.Digest {
		sc.Steps[fakecam.Describe] = fakecam.Behaviour{Kind: fakecam.Digest401, N: 1}
	}
	switch cc.Failing {
	case "describe-404":
		sc.Steps[fakecam.Describe] = fakecam.Behaviour{Kind: fakecam.Status, Code: 404}
	case "describe-eof":
		sc.Steps[fakecam.Describe] = fakecam.Behaviour{Kind: fakecam.EOF}
	case "options-rst":
		sc.Steps[fakecam.Options] = fakecam.Behaviour{Kind: fakecam.RST}
	case "setup-500":
		sc.Steps[fakecam.SetupVideo] = fakecam.Behaviour{Kind: fakecam.Status, Code: 500}
	}
	frames := fakecam.SimpleFrames(4000, cc.Audio)
	// A failing camera is slow to fail: it holds its reaction at the failing step back
	// until every requester has been started and has had its chance to look the path
	// up (they all find the first pull still in progress), or for 300 ms.
	script := fakecam.Script{Steps: sc.Steps, User: sc.User, Pass: sc.Pass, SDP: mediah.SDP(esgen.H264, cc.Audio), Frames: frames, Initial: 2, StrictSetup: true}
	allStarted := make(chan struct{})
	if cc.Failing != "" && !cc.Injected {
		failStep := map[string]fakecam.Step{"describe-404": fakecam.Describe, "describe-eof": fakecam.Describe, "options-rst": fakecam.Options, "setup-500": fakecam.SetupVideo}[cc.Failing]
		script.Gate = func(step fakecam.Step) {
			if step == failStep {
				select {
				case <-allStarted:
					time.Sleep(30 * time.Millisecond) // stimulus only: the other requesters reach their lookup
				case <-time.After(300 * time.Millisecond):
				}
			}
		}
	}
	cam, err := fakecam.Start(script)
	if err != nil {
		res.failf("harness", "camera did not start: %v", err)
		return res
	}
	defer cam.Close()
	reqPath, canon, _, pattern := routeFor(sc, id, cam.HostPort(), "admin:pw")
	defer route.Del(pattern)

	n := len(cc.Modes)
	rqs := make([]requester, n)
	type ret struct {
		outcome, detail string
		s               *media.Stream
	}
	rets := make([]ret, n)
	feedAll := func() {
		for i := 0; i < cam.ConnCount(); i++ {
			cam.Send(i, 16, 0)
		}
	}
	allDirect := true
	for i, m := range cc.Modes {
		rqs[i] = requesterFor(m)
		rqs[i].setFeed(feedAll)
		if m != "direct" {
			allDirect = false
		}
	}
	defer func() {
		for _, rq := range rqs {
			rq.release()
		}
	}()
	run := func(i int) {
		o, s, d := rqs[i].request(reqPath, func() {})
		rets[i] = ret{o, d, s}
	}
	finished := make(chan struct{})
	if cc.Injected {
		in := sched.New(3 * bound)
		for k := 1; k < n; k++ {
			k := k
			in.Add(&sched.Directive{Point: "getorcreate.missed", Occ: k, Label: fmt.Sprintf("request %d", k+1),
				Filter: func(o interface{}) bool { p, ok := o.(string); return ok && p == canon },
				Do:     func() { run(k) }})
		}
		media.VerifSetSched(in.Hook)
		go func() {
			run(0)
			in.Wait(3 * bound)
			close(finished)
		}()
		defer func() { res.fired = in.FiredCount() }()
	} else {
		var wg sync.WaitGroup
		start := make(chan struct{})
		for i := 0; i < n; i++ {
			wg.Add(1)
			go func(i int) {
				defer wg.Done()
				<-start
				run(i)
			}(i)
		}
		close(start)
		close(allStarted)
		go func() { wg.Wait(); close(finished) }()
	}
	select {
	case <-finished:
	case <-time.After(4 * bound):
		media.VerifSetSched(nil)
		res.failf("requester-hangs", "simultaneous requests for %s did not all return within %v:\n%s", reqPath, 4*bound, stacksMatching("c20."))
		cam.Close()
		select {
		case <-finished:
		case <-time.After(bound): // requesters that are stuck for good are left behind: the case has failed already
		}
		return res
	}
	media.VerifSetSched(nil)
	if cc.Injected {
		// requests whose window was never reached (an earlier request had registered already) still have to run
		for i := range rets {
			if rets[i].outcome == "" {
				run(i)
			}
		}
	}
	res.pulls = cam.ConnCount()
	if cc.Failing != "" {
		for i, r := range rets {
			if r.outcome == "stream" {
				res.failf("stream-from-failing-camera", "simultaneous request %d (%s) was handed a stream although the camera fails (%s); camera saw: %s", i+1, cc.Modes[i], cc.Failing, renderConns(cam.Conns()))
			}
		}
		if reg := media.Get(canon); reg != nil && !mediah.WaitFor(bound, func() bool { return media.Get(canon) == nil }) {
			res.failf("registered-after-failure", "a stream is registered under %s although every pull failed (%s)", canon, cc.Failing)
		}
		for _, rq := range rqs {
			rq.release()
		}
		cleanupChecks(&res.result, sc, base, cam, canon, nil, false)
		return res
	}
	for i, r := range rets {
		if r.outcome != "stream" {
			res.failf("pull-fails", "simultaneous request %d (%s) against a healthy camera ended with %q %s; camera saw: %s", i+1, cc.Modes[i], r.outcome, r.detail, renderConns(cam.Conns()))
		}
	}
	// exactly one registered stream
	reg := media.Get(canon)
	if reg == nil {
		res.failf("none-registered", "after %d simultaneous requests nothing is registered under %s", n, canon)
	}
	if s, _ := media.Count(); s != base.streams+1 {
		res.failf("registered-count", "after %d simultaneous requests media.Count() reports %d streams more than before, want 1", n, s-base.streams)
	}
	if allDirect && reg != nil {
		found := false
		for _, r := range rets {
			if r.s == reg {
				found = true
			}
		}
		if !found {
			res.failf("foreign-stream", "the registered stream is none of the streams handed to the requesters")
		}
		// streams that lost have no consumer: they are closed, and their pull ends with the next packet
		feedAll()
		open := func() int {
			k := 0
			for _, c := range cam.Conns() {
				if !c.PeerClosed {
					k++
				}
			}
			return k
		}
		if !mediah.WaitFor(bound, func() bool { feedAll(); return open() == 1 }) {
			res.failf("loser-not-released", "%d pulls were started for one path; %d camera connections are still open %v later (want 1: the registered stream's): %s", res.pulls, open(), bound, renderConns(cam.Conns()))
		}
		for i, r := range rets {
			if r.s != nil && r.s != reg && media.VerifStatus(r.s) == media.StreamOK {
				res.failf("loser-not-released", "the stream handed to request %d lost the registration but is still open", i+1)
			}
		}
		if reg != nil && media.VerifStatus(reg) != media.StreamOK {
			res.failf("registered-closed", "the stream registered under %s is closed", canon)
		}
	}
	// the end: every camera connection ends, everything must be released
	for _, rq := range rqs {
		rq.release()
	}
	for i := 0; i < cam.ConnCount(); i++ {
		cam.Finish(i, fakecam.AfterEOF, 0)
	}
	cleanupChecks(&res.result, sc, base, cam, canon, nil, false)
	return res
}
