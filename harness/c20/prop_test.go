package c20

import (
	"bufio"
	"bytes"
	"encoding/json"
	"fmt"
	"net"
	"os"
	"sort"
	"strings"
	"sync"
	"testing"
	"time"

	"github.com/cnotch/xlog"
	"pgregory.net/rapid"
	"verif/harness/lib/evid"
	"verif/harness/lib/fakecam"
	"verif/harness/lib/mediah"
	"verif/harness/lib/rtppack/esgen"
)

type syncBuf struct {
	mu sync.Mutex
	b  bytes.Buffer
}

func (s *syncBuf) Write(p []byte) (int, error) {
	s.mu.Lock()
	defer s.mu.Unlock()
	if s.b.Len() > 8<<20 {
		s.b.Reset()
	}
	return s.b.Write(p)
}

var logs syncBuf

func TestMain(m *testing.M) {
	if os.Getenv("VERIF_LOG") == "" { // ipchub logs every failed pull; keep stderr readable
		xlog.ReplaceGlobal(xlog.New(xlog.NewCore(xlog.NewConsoleEncoder(xlog.LstdFlags), xlog.Lock(&logs), xlog.InfoLevel)))
	}
	server() // started first, so that its permanent goroutines and sockets are part of every baseline
	evid.Main(m, "C20")
}

// serial: scenarios observe process-wide state (registry, connection counter,
// goroutine profile, descriptors), so only one runs at a time.
var serial sync.Mutex

const ruleText = "fault enumeration: a scripted fake RTSP camera (lib/fakecam, from RFC 2326/2617) behind a route; every (handshake step x camera behaviour) pair — accept/OPTIONS/DESCRIBE/SETUP video/SETUP audio/PLAY x {ok, 401 Basic x1..3, 401 Digest x1..3, 4xx/5xx codes, malformed Status-Line forms, malformed header forms, garbage SDP forms, format-less SDP forms, silence / RST / early EOF before or in the middle of the answer, refused connect, unsolicited banner} — and every way of ending the play phase (server-side close, EOF, RST, silence, garbage forms; with 0..2 consumers attached) is enumerated, then rapid draws multi-fault vectors (credentials right/absent/wrong/MD5-stored, Basic<->Digest switches, directory routes, audio on/off, paced live packets) and 2..4 simultaneous first requests ordered through the getorcreate.missed schedule point; requests go through media.GetOrCreate and through the in-process server (RTSP DESCRIBE, HTTP-FLV, HLS). Oracle from the camera's record + registry + counters + goroutine profile + descriptors. Non-trivial = the fault comes after at least one successful step, or during play with a consumer attached"

func classify(sc *scenario, res *result) {
	exp, fstep, okBefore := sc.expect()
	evid.Class("expect=" + exp.String() + " outcome=" + res.outcome)
	nt := false
	if fstep >= 0 {
		evid.Class("first deviation at " + fstep.String() + ": " + sc.Steps[fstep].Kind.String())
		if okBefore >= 1 && !(exp == mustSucceed) {
			nt = true
		}
		if exp == mustSucceed { // challenged once and went on
			nt = true
		}
	}
	if res.outcome == "stream" {
		evid.Class("play ends by " + fakecam.After(sc.End).String() + fmt.Sprintf(" consumers=%d", sc.Consumers))
		if sc.Consumers > 0 && (fakecam.After(sc.End) != fakecam.Continue || sc.Live > 0) {
			nt = true
		}
		if res.keepAlives > 0 {
			evid.Class("keep-alive requests answered during play")
		}
		if res.regAtOnce {
			evid.Class("registered when the request returned")
		} else {
			evid.Class("registered only after the request returned")
		}
	}
	if (sc.Base != "" || sc.Control != "") && res.outcome == "stream" {
		evid.Class(fmt.Sprintf("strict SETUP URLs: content-base=%s control=%q pulled", sc.Base, sc.Control))
		nt = true
	}
	if sc.SDPShape != "" && res.outcome == "stream" {
		evid.Class("SDP shape " + sc.SDPShape + ": stream served")
		nt = true
	}
	if sc.Remap {
		evid.Class("camera grants other interleaved pairs than asked (outside the pull client's domain: counted only), outcome=" + res.outcome)
	}
	if res.gluedPlay > 0 {
		evid.Class(fmt.Sprintf("frames shared the PLAY answer's write: %s", bucket(res.gluedPlay)))
		nt = true
	}
	if res.gluedKA > 0 {
		evid.Class(fmt.Sprintf("frames shared a keep-alive answer's write: %s", bucket(res.gluedKA)))
		nt = true
	}
	if nt {
		evid.Nontrivial(evid.FP(sc.key()))
	}
	cls := "handshake " + exp.String()
	if evid.WantSample(cls) {
		evid.Sample(cls, map[string]any{"scenario": sc.key(), "outcome": res.outcome, "camera": renderConns(res.cam)})
	}
}

// report turns the failures of a batch of scenarios into one violation that
// names every distinct failing check with its first witness.
func report(t evid.TB, name string, failed map[string]*scenario, msgs map[string]string) {
	if len(failed) == 0 {
		return
	}
	var ks []string
	for k := range failed {
		ks = append(ks, k)
	}
	sort.Strings(ks)
	var b strings.Builder
	for _, k := range ks {
		fmt.Fprintf(&b, "\n- %s: scenario {%s}: %s", k, failed[k].key(), msgs[k])
	}
	evid.Violation(t, name+"/"+ks[0], failed[ks[0]], "%d failing check(s):%s", len(ks), b.String())
}

// enumeration builds every single-deviation scenario.
func enumeration() []*scenario {
	var out []*scenario
	mk := func(st fakecam.Step, b fakecam.Behaviour) *scenario {
		sc := &scenario{Audio: true, Creds: "right", User: "admin", Pass: "pa:ss@w/rd", Initial: 3, Consumers: 1, Live: 4,
			End: int(fakecam.AfterEOF), Mode: "direct", FollowUp: true, CacheGop: true}
		sc.Steps[st] = b
		sc.Name = fmt.Sprintf("%s x %s", st, b)
		return sc
	}
	for st := fakecam.Accept; st < fakecam.NumSteps; st++ {
		for k := fakecam.OK; k < fakecam.NumKinds; k++ {
			if !fakecam.Applicable(k, st) {
				continue
			}
			switch k {
			case fakecam.Basic401, fakecam.Digest401:
				for n := 1; n <= 3; n++ {
					out = append(out, mk(st, fakecam.Behaviour{Kind: k, N: n}))
				}
			case fakecam.Status:
				for _, code := range []int{400, 401, 403, 404, 454, 461, 500, 503} {
					out = append(out, mk(st, fakecam.Behaviour{Kind: k, Code: code}))
				}
			default:
				for v := 0; v < fakecam.Variants(k, st); v++ {
					out = append(out, mk(st, fakecam.Behaviour{Kind: k, Variant: v}))
				}
			}
		}
	}
	// all-ok cameras behind every shape of route URL
	for _, shape := range []string{"nopath", "root", "query", "deep"} {
		sc := mk(fakecam.Options, fakecam.Behaviour{})
		sc.URLShape = shape
		sc.Name = "all ok, route URL shape " + shape
		out = append(out, sc)
	}
	return out
}

func runBatch(t *testing.T, name string, scs []*scenario) {
	failed := map[string]*scenario{}
	msgs := map[string]string{}
	failing := 0
	shard, shards := evid.Shard()
	for i, sc := range scs {
		if i%shards != shard { // an enumeration is split over the shards of a run, not repeated by each
			continue
		}
		if failing >= 3 { // a red run reports its first failures and stops; later scenarios are not counted
			break
		}
		serial.Lock()
		res := runScenario(sc, requesterFor(sc.Mode))
		serial.Unlock()
		if len(res.failures) > 0 {
			failing++
		}
		evid.Eval(1)
		classify(sc, res)
		for _, f := range res.failures {
			if _, dup := failed[f.check]; !dup {
				failed[f.check] = sc
				msgs[f.check] = f.msg
			}
			if os.Getenv("C20_VERBOSE") != "" {
				t.Logf("FAIL %s | %s | %s", sc.key(), f.check, firstLine(f.msg))
			}
		}
	}
	report(t, name, failed, msgs)
}

func bucket(n int) string {
	switch {
	case n <= 1:
		return "1"
	case n <= 9:
		return "2..9"
	}
	return "10+"
}

func firstLine(s string) string {
	if i := strings.IndexByte(s, '\n'); i >= 0 {
		return s[:i]
	}
	return s
}

// TestSingleFaultEnumeration: every (step x behaviour) pair, one deviation per
// scenario, requested directly through media.GetOrCreate.
func TestSingleFaultEnumeration(t *testing.T) {
	evid.Rule(ruleText)
	evid.Assume("the fake camera is trusted (self-tests in lib/fakecam: RFC 2617 §3.5 worked example, ipchub's and RFC 2326's own request samples, a hand-written client)")
	scs := enumeration()
	evid.ClassN("enumerated (step x behaviour) pairs", int64(len(scs)))
	runBatch(t, "single-fault", scs)
}

// playEndings builds every way the play phase can end.
func playEndings() []*scenario {
	var out []*scenario
	for end := fakecam.Continue; end < fakecam.NumAfters; end++ {
		variants := 1
		if end == fakecam.AfterGarbage {
			variants = fakecam.GarbageVariants
		}
		for v := 0; v < variants; v++ {
			stalls := end == fakecam.AfterSilence || (end == fakecam.AfterGarbage && v == 3)
			for cons := 0; cons <= 2; cons++ {
				for _, initial := range []int{0, 5} {
					if stalls && !evid.Thorough() && (cons == 0) != (initial == 0) {
						continue // endings that wait for the server's timeout: half of the grid in the quick tier
					}
					sc := &scenario{Audio: cons != 1, Creds: "right", User: "admin", Pass: "pw", Initial: initial, Consumers: cons, Live: 6,
						End: int(end), EndVariant: v, Mode: "direct", FollowUp: true, CacheGop: initial == 0, Paced: cons == 2 && initial == 5, SessionTimeout: cons == 1}
					sc.Name = fmt.Sprintf("play ends by %s/%d with %d consumers", end, v, cons)
					out = append(out, sc)
				}
			}
			if end != fakecam.Continue {
				// the end comes right behind the PLAY answer / the first frames, racing the start of the play loop
				for _, initial := range []int{0, 2} {
					if stalls && !evid.Thorough() && initial == 2 {
						continue
					}
					sc := &scenario{Audio: true, Creds: "right", User: "admin", Pass: "pw", Initial: initial, End: int(end), EndVariant: v, AutoFinish: true, Mode: "direct", FollowUp: true}
					sc.Name = fmt.Sprintf("play ends by %s/%d at once", end, v)
					out = append(out, sc)
				}
			}
		}
	}
	return out
}

// TestPlayEndings: disconnects, stalls and garbage at any time during play,
// with and without consumers.
func TestPlayEndings(t *testing.T) {
	scs := playEndings()
	evid.ClassN("enumerated play endings", int64(len(scs)))
	runBatch(t, "play-ending", scs)
}

// TestEndToEnd: the enumerated scenarios again, requested through the
// in-process server by an RTSP player (OPTIONS, DESCRIBE, SETUP, PLAY; checks the
// interleaved frames it receives), an HTTP-FLV GET and an HLS playlist GET. The
// quick tier takes every fourth scenario per mode (three of four pairs are met
// in one of the three modes; thorough takes all); HLS takes the refusing cameras only, because a playlist
// request for a live stream waits for three segments.
func TestEndToEnd(t *testing.T) {
	var scs []*scenario
	all := append(enumeration(), playEndings()...)
	for i, sc := range all {
		for m, mode := range []string{"rtsp", "flv", "hls"} {
			if !evid.Thorough() && i%4 != m {
				continue
			}
			e, _, _ := sc.expect()
			if mode == "hls" && e != mustFail {
				continue
			}
			c := *sc
			c.Mode = mode
			if mode == "rtsp" {
				c.CacheGop = false
			}
			c.FollowUp = i%2 == 0
			scs = append(scs, &c)
		}
	}
	evid.ClassN("end-to-end scenarios", int64(len(scs)))
	for _, sc := range scs {
		evid.Class("requested through " + sc.Mode)
	}
	runBatch(t, "end-to-end", scs)
}

// coalesced builds the scenarios in which the camera writes several messages
// back to back in one TCP segment: the PLAY answer together with the first k
// frames, and a keep-alive answer together with the next k frames.
func coalesced() []*scenario {
	var out []*scenario
	i := 0
	for _, k := range []int{1, 5, 40} {
		for _, challenge := range []string{"none", "digest@DESCRIBE", "basic@OPTIONS", "digest@PLAY"} {
			for _, audio := range []bool{false, true} {
				mk := func() *scenario {
					sc := &scenario{Audio: audio, Creds: "right", User: "admin", Pass: "pw", BigFrames: true, End: int(fakecam.AfterEOF), Mode: "direct", SessionTimeout: audio}
					switch challenge {
					case "digest@DESCRIBE":
						sc.Steps[fakecam.Describe] = fakecam.Behaviour{Kind: fakecam.Digest401, N: 1}
					case "basic@OPTIONS":
						sc.Steps[fakecam.Options] = fakecam.Behaviour{Kind: fakecam.Basic401, N: 1}
					case "digest@PLAY": // the challenge's answer is followed by the real answer plus frames
						sc.Steps[fakecam.Play] = fakecam.Behaviour{Kind: fakecam.Digest401, N: 1}
					}
					return sc
				}
				// the PLAY answer and the first k frames in one write
				a := mk()
				a.GluePlay, a.Initial, a.Consumers, a.Live = k, k+i%3, 1, 4
				a.Mode = []string{"direct", "direct", "rtsp", "flv"}[i%4]
				a.Name = fmt.Sprintf("PLAY answer + %d frames in one write, challenge %s", k, challenge)
				// a keep-alive answer and the next k frames in one write, twice
				b := mk()
				b.GlueKA, b.KAGlues, b.Initial, b.Live, b.Paced = k, 2, 3, 4, true
				b.GluePlay = []int{0, 2}[i%2]
				b.Name = fmt.Sprintf("keep-alive answer + %d frames in one write, challenge %s", k, challenge)
				out = append(out, a, b)
				i++
			}
		}
	}
	return out
}

// TestCoalescedWrites: a camera that puts its PLAY answer (or a keep-alive
// answer) and the following frames into one TCP write. Every frame — including
// those that shared the segment with the answer — reaches a consumer that is
// attached before the play loop starts, in order; the stream's byte counter
// agrees; the pull stays up.
func TestCoalescedWrites(t *testing.T) {
	scs := coalesced()
	evid.ClassN("enumerated coalesced-write scenarios", int64(len(scs)))
	runBatch(t, "coalesced", scs)
}

// sdpShapes builds the scenarios over the shapes of a camera's session
// description: audio-only, audio listed before video, a third (metadata)
// section, and cameras that grant other interleaved pairs than asked.
func sdpShapes() []*scenario {
	var out []*scenario
	i := 0
	for _, shape := range []string{"audio-only", "audio-first", "three", ""} {
		for _, challenge := range []bool{false, true} {
			for _, glue := range []int{0, 5} {
				for _, mode := range []string{"direct", "rtsp"} {
					if mode == "rtsp" && shape == "three" {
						continue // an RTSP player would try to set up the metadata track at ipchub, which is not this property
					}
					sc := &scenario{Audio: true, SDPShape: shape, Creds: "right", User: "admin", Pass: "pw", Initial: 6, GluePlay: glue,
						Consumers: 1 + i%2, Live: 12, End: int(fakecam.AfterEOF), Mode: mode, SessionTimeout: i%2 == 0, FollowUp: i%4 == 0}
					if challenge {
						sc.Steps[fakecam.Describe] = fakecam.Behaviour{Kind: fakecam.Digest401, N: 1}
					}
					sc.Name = fmt.Sprintf("SDP shape %q", shape)
					out = append(out, sc)
					i++
				}
			}
		}
	}
	// other pairs than asked: ipchub's pull client does not read the Transport of
	// the answer, so this lies outside its domain; counted, outcome left open,
	// cleanliness still owed
	for _, shape := range []string{"", "audio-only"} {
		sc := &scenario{Audio: true, SDPShape: shape, Remap: true, Creds: "right", User: "admin", Pass: "pw", Initial: 4, End: int(fakecam.AfterEOF), Mode: "direct", FollowUp: true}
		sc.Name = "camera grants other interleaved pairs than asked"
		out = append(out, sc)
	}
	return out
}

// TestSDPShapes: whatever tracks the camera describes and in whatever order,
// every frame reaches the consumers on the ipchub channel of its track (video
// RTP 0, video RTCP 1, audio RTP 2, audio RTCP 3), bytes untouched, in order.
func TestSDPShapes(t *testing.T) {
	scs := sdpShapes()
	evid.ClassN("enumerated SDP-shape scenarios", int64(len(scs)))
	runBatch(t, "sdp-shape", scs)
}

// setupURLs builds the scenarios over the base headers of the DESCRIBE answer
// and the forms of a=control, against a camera that accepts SETUP only at a
// URL RFC 2326 C.1.1 gives for the track (fakecam.SetupURLs) and answers 404
// anywhere else.
func setupURLs() []*scenario {
	var out []*scenario
	i := 0
	for _, base := range []string{"none", "slash", "noslash", "althost", "location", "both"} {
		for _, control := range []string{"", "path", "abs", "star"} {
			for _, audio := range []bool{false, true} {
				sc := &scenario{Audio: audio, Base: base, Control: control, Creds: "right", User: "admin", Pass: "pw", Initial: 3, Consumers: 1, Live: 4,
					End: int(fakecam.AfterEOF), Mode: []string{"direct", "direct", "rtsp"}[i%3],
					URLShape: []string{"", "deep", "root", "nopath", "query", ""}[i%6], DirRoute: i%7 == 6, TrailingSlash: i%2 == 0}
				if sc.DirRoute {
					sc.URLShape = ""
				}
				if i%5 == 0 {
					sc.Steps[fakecam.SetupVideo] = fakecam.Behaviour{Kind: fakecam.Digest401, N: 1}
				}
				sc.Name = fmt.Sprintf("Content-Base %s, control form %q", base, control)
				out = append(out, sc)
				i++
			}
		}
	}
	return out
}

// TestSetupURLs: a healthy camera is pulled whatever base headers it sends and
// however it spells its control attributes; every SETUP goes to a URL at which
// the camera serves the track.
func TestSetupURLs(t *testing.T) {
	scs := setupURLs()
	evid.ClassN("enumerated (base header x control form) scenarios", int64(len(scs)))
	runBatch(t, "setup-url", scs)
}

// TestReplayFile re-runs one saved case (a scenario, a sequential-requests case
// or a simultaneous-requests case, told apart by the check name) without rapid.
// Generated RTP programmes are not part of the rendering; the replay uses the
// deterministic programme (rapid's own .fail file replays the exact one).
func TestReplayFile(t *testing.T) {
	p := os.Getenv("VERIF_REPLAY_FILE")
	if p == "" {
		t.Skip("no replay file")
	}
	b, err := os.ReadFile(p)
	if err != nil {
		t.Fatal(err)
	}
	var doc struct {
		Check string          `json:"check"`
		Case  json.RawMessage `json:"case"`
	}
	if err := json.Unmarshal(b, &doc); err != nil {
		t.Fatal(err)
	}
	var failures []fail
	serial.Lock()
	switch {
	case strings.HasPrefix(doc.Check, "concurrent/"):
		var cc concurrentCase
		if err := json.Unmarshal(doc.Case, &cc); err != nil {
			t.Fatal(err)
		}
		failures = concurrent(&cc).failures
	case strings.HasPrefix(doc.Check, "sequential/"):
		var sc scenario
		if err := json.Unmarshal(doc.Case, &sc); err != nil {
			t.Fatal(err)
		}
		failures = sequential(&sc, 3).failures
	default:
		var sc scenario
		if err := json.Unmarshal(doc.Case, &sc); err != nil {
			t.Fatal(err)
		}
		failures = runScenario(&sc, requesterFor(sc.Mode)).failures
	}
	serial.Unlock()
	for _, f := range failures {
		t.Errorf("%s: %s", f.check, f.msg)
	}
}

// TestHLSPlaylistRequest: the third kind of requester on a healthy camera. A
// playlist request for a stream that has just been pulled waits until three
// segments exist, so the camera's programme has half-second frames and the
// requester keeps it sending while it waits.
func TestHLSPlaylistRequest(t *testing.T) {
	sc := &scenario{Name: "HLS playlist request, healthy camera", Audio: true, Creds: "right", User: "admin", Pass: "pw", Initial: 2,
		Consumers: 1, Live: 4, End: int(fakecam.AfterEOF), Mode: "hls", FollowUp: true}
	sc.Steps[fakecam.Describe] = fakecam.Behaviour{Kind: fakecam.Digest401, N: 1}
	sc.frames = fakecam.SimpleFramesStep(3000, true, 45000)
	runBatch(t, "hls-request", []*scenario{sc})
}

// TestSequentialRequests: when a request has succeeded the stream is under the
// requested path, so requests that follow at once are served by it — the camera
// sees one connection, not one per request.
func TestSequentialRequests(t *testing.T) {
	rounds := 25
	if evid.Thorough() {
		rounds = 300
	}
	for round := 0; round < rounds; round++ {
		sc := &scenario{Name: "sequential requests", Audio: round%2 == 0, Creds: "right", User: "admin", Pass: "pw", Initial: round % 4, Mode: "direct"}
		if round%3 == 1 {
			sc.Steps[fakecam.Describe] = fakecam.Behaviour{Kind: fakecam.Digest401, N: 1}
		}
		n := 2 + round%3
		serial.Lock()
		res := sequential(sc, n)
		serial.Unlock()
		evid.Eval(1)
		evid.Nontrivial(evid.FP("sequential", round))
		evid.Class(fmt.Sprintf("sequential: %d requests one after the other", n))
		if len(res.failures) > 0 {
			evid.Violation(t, "sequential/"+res.failures[0].check, sc, "%s", joinFailures(res.failures))
		}
	}
}

func joinFailures(fs []fail) string {
	var b strings.Builder
	for _, f := range fs {
		fmt.Fprintf(&b, "\n- %s: %s", f.check, f.msg)
	}
	return b.String()
}

// ---------------------------------------------------------------- generated multi-fault scenarios

func genBehaviour(t *rapid.T, st fakecam.Step, label string) fakecam.Behaviour {
	var kinds []fakecam.Kind
	for k := fakecam.Basic401; k < fakecam.NumKinds; k++ {
		if fakecam.Applicable(k, st) {
			kinds = append(kinds, k)
		}
	}
	// challenges are the deviation a handshake survives, so they get extra weight
	if st != fakecam.Accept && rapid.IntRange(0, 9).Draw(t, label+"-auth") < 6 {
		k := fakecam.Digest401
		if rapid.Bool().Draw(t, label+"-basic") {
			k = fakecam.Basic401
		}
		n := 1
		if rapid.IntRange(0, 4).Draw(t, label+"-repeat") == 0 {
			n = rapid.IntRange(2, 3).Draw(t, label+"-n")
		}
		return fakecam.Behaviour{Kind: k, N: n}
	}
	k := rapid.SampledFrom(kinds).Draw(t, label+"-kind")
	b := fakecam.Behaviour{Kind: k}
	switch k {
	case fakecam.Basic401, fakecam.Digest401:
		b.N = rapid.IntRange(1, 3).Draw(t, label+"-n")
	case fakecam.Status:
		b.Code = rapid.SampledFrom([]int{400, 401, 403, 404, 405, 451, 454, 455, 461, 462, 500, 501, 503, 505, 551}).Draw(t, label+"-code")
	default:
		b.Variant = rapid.IntRange(0, fakecam.Variants(k, st)-1).Draw(t, label+"-variant")
	}
	return b
}

func genScenario(t *rapid.T) *scenario {
	sc := &scenario{Mode: rapid.SampledFrom([]string{"direct", "direct", "direct", "rtsp", "flv"}).Draw(t, "mode")}
	sc.Audio = rapid.Bool().Draw(t, "audio")
	sc.Creds = rapid.SampledFrom([]string{"right", "right", "right", "right", "right", "right", "right", "none", "wrong", "md5cam"}).Draw(t, "creds")
	sc.User = rapid.StringMatching(`[A-Za-z0-9._-]{1,10}`).Draw(t, "user")
	// passwords with everything a URL has to escape; no '"' or '\' (quoted-string of the Digest header)
	sc.Pass = rapid.StringMatching(`[A-Za-z0-9:@/?#%&=+ !$*,;~._-]{0,14}`).Draw(t, "pass")
	sc.DirRoute = rapid.IntRange(0, 3).Draw(t, "dir") == 0
	sc.TrailingSlash = rapid.Bool().Draw(t, "slash")
	sc.MixedCase = rapid.IntRange(0, 4).Draw(t, "mixed") == 0
	if !sc.DirRoute {
		sc.URLShape = rapid.SampledFrom([]string{"", "", "nopath", "root", "query", "deep"}).Draw(t, "shape")
	}
	if sc.Mode != "flv" && rapid.IntRange(0, 3).Draw(t, "sdpShape?") == 0 {
		shapes := []string{"audio-only", "audio-first", "three"}
		if sc.Mode == "rtsp" {
			shapes = shapes[:2]
		}
		sc.SDPShape = rapid.SampledFrom(shapes).Draw(t, "sdpShape")
		sc.Audio = true
	}
	if rapid.IntRange(0, 2).Draw(t, "base?") == 0 {
		sc.Base = rapid.SampledFrom([]string{"none", "noslash", "althost", "location", "both"}).Draw(t, "base")
	}
	if rapid.IntRange(0, 3).Draw(t, "control?") == 0 {
		sc.Control = rapid.SampledFrom([]string{"path", "abs", "star"}).Draw(t, "control")
	}
	sc.SessionTimeout = rapid.Bool().Draw(t, "sessionTimeout")
	sc.CacheGop = rapid.Bool().Draw(t, "cacheGop") && sc.Mode != "rtsp"
	// 0..3 deviating steps (possibly behind each other), the rest ok; the accept
	// step ends everything, so it is drawn rarely
	walk := sc.walk()
	n := rapid.SampledFrom([]int{0, 1, 1, 2, 2, 2, 3, 3}).Draw(t, "deviations")
	for i := 0; i < n; i++ {
		st := walk[rapid.IntRange(1, len(walk)-1).Draw(t, "step")]
		if rapid.IntRange(0, 11).Draw(t, "atAccept") == 0 {
			st = fakecam.Accept
		}
		if sc.Steps[st].Kind != fakecam.OK {
			continue
		}
		sc.Steps[st] = genBehaviour(t, st, st.String())
	}
	sc.Initial = rapid.IntRange(0, 6).Draw(t, "initial")
	sc.Consumers = rapid.IntRange(0, 2).Draw(t, "consumers")
	sc.Live = rapid.IntRange(0, 10).Draw(t, "live")
	sc.Paced = sc.Live > 0 && sc.Live <= 4 && rapid.IntRange(0, 3).Draw(t, "paced") == 0
	sc.End = rapid.IntRange(0, int(fakecam.NumAfters)-1).Draw(t, "end")
	if fakecam.After(sc.End) == fakecam.AfterGarbage {
		sc.EndVariant = rapid.IntRange(0, fakecam.GarbageVariants-1).Draw(t, "garbage")
	}
	sc.AutoFinish = fakecam.After(sc.End) != fakecam.Continue && rapid.IntRange(0, 4).Draw(t, "auto") == 0
	sc.FollowUp = rapid.IntRange(0, 2).Draw(t, "followUp") == 0
	// several messages in one TCP write
	if rapid.IntRange(0, 2).Draw(t, "gluePlay?") == 0 {
		sc.GluePlay = rapid.SampledFrom([]int{1, 2, 5, 12, 40}).Draw(t, "gluePlay")
		if sc.Initial < sc.GluePlay {
			sc.Initial = sc.GluePlay
		}
	}
	if sc.Mode == "direct" && rapid.IntRange(0, 4).Draw(t, "glueKA?") == 0 {
		sc.GlueKA = rapid.SampledFrom([]int{1, 3, 5, 40}).Draw(t, "glueKA")
		sc.KAGlues = rapid.IntRange(1, 3).Draw(t, "kaGlues")
		sc.Consumers, sc.Paced = 0, true // the from-start consumer judges; live frames paced so that keep-alives flow
		sc.Live = rapid.IntRange(2, 4).Draw(t, "glueLive")
	}
	// the programme: generated access units in every legal packetisation
	cfg := esgen.Config{Codec: esgen.H264, MaxNAL: 1200, Tags: true, MaxAUs: 8, MaxGOP: 4, MaxUnits: 24, RealParamSets: true}
	aus := cfg.DrawSequence(t)
	mediah.PadTinySlices(esgen.H264, aus)
	vs := esgen.Packetise(t, esgen.H264, aus, esgen.PackConfig{MaxPacket: 1400, MaxFrags: 4})
	var as *esgen.Stream
	if sc.hasAudio() {
		ac := esgen.AacConfig{MaxAUs: 6, MaxAUSize: 300, Tags: true}
		as = esgen.PacketiseAac(t, ac, ac.DrawAacAUs(t), esgen.PackConfig{})
	}
	merge := rapid.SliceOfN(rapid.Bool(), 64, 64).Draw(t, "merge")
	sc.frames = fakecam.FramesOf(vs, as, func(i int) bool { return merge[i%len(merge)] })
	// generated programmes are short; deterministic frames follow as material for live / push / feed
	tail := 70 + sc.GluePlay + sc.GlueKA*sc.KAGlues
	if sc.Mode == "flv" {
		tail = 800
	}
	if sc.SDPShape == "audio-only" {
		tail *= 4
	}
	for _, f := range fakecam.SimpleFrames(tail, sc.hasAudio()) {
		sc.frames = append(sc.frames, f)
	}
	return sc
}

// TestMultiFault: rapid-generated vectors of deviations over the whole
// handshake and the play phase, with generated credentials, routes and
// programmes, through all request modes.
func TestMultiFault(t *testing.T) {
	evid.Checks(110, 1200)
	rapid.Check(t, func(t *rapid.T) {
		sc := genScenario(t)
		serial.Lock()
		res := runScenario(sc, requesterFor(sc.Mode))
		serial.Unlock()
		evid.Eval(1)
		classify(sc, res)
		nDev := 0
		for _, b := range sc.Steps {
			if b.Kind != fakecam.OK {
				nDev++
			}
		}
		evid.Class(fmt.Sprintf("generated: %d deviating steps, creds=%s, mode=%s", nDev, sc.Creds, sc.Mode))
		if len(res.failures) > 0 {
			evid.Violation(t, "multi-fault/"+res.failures[0].check, sc, "scenario {%s}:%s", sc.key(), joinFailures(res.failures))
		}
	})
}

// TestConcurrentFirstRequests: 2..4 simultaneous first requests for one routed
// path — ordered through the getorcreate.missed schedule point (request k+1
// runs entirely between request k's registry miss and its pull) or free-running
// — end with exactly one registered stream; every requester is served; streams
// that lost the registration and have no consumer are closed and their camera
// connection released; in the end nothing is left behind.
func TestConcurrentFirstRequests(t *testing.T) {
	evid.Checks(30, 300)
	rapid.Check(t, func(t *rapid.T) {
		cc := &concurrentCase{Injected: rapid.IntRange(0, 3).Draw(t, "injected") != 0, Digest: rapid.Bool().Draw(t, "digest"), Audio: rapid.Bool().Draw(t, "audio")}
		n := rapid.IntRange(2, 4).Draw(t, "requesters")
		allDirect := rapid.Bool().Draw(t, "allDirect")
		for i := 0; i < n; i++ {
			m := "direct"
			if !allDirect {
				m = rapid.SampledFrom([]string{"direct", "rtsp", "flv"}).Draw(t, "mode")
			}
			cc.Modes = append(cc.Modes, m)
		}
		if rapid.IntRange(0, 2).Draw(t, "failingCamera") == 0 {
			cc.Failing = rapid.SampledFrom([]string{"describe-404", "describe-eof", "options-rst", "setup-500"}).Draw(t, "failure")
			cc.Digest = false
			cc.Injected = rapid.IntRange(0, 3).Draw(t, "failingInjected") == 0 // mostly free-running: the requests overlap while the camera takes its time to fail
		}
		serial.Lock()
		res := concurrent(cc)
		serial.Unlock()
		evid.Eval(1)
		if cc.Failing != "" {
			evid.Class(fmt.Sprintf("simultaneous first requests against a failing camera (%s), injected=%v", cc.Failing, cc.Injected))
		}
		evid.Class(fmt.Sprintf("simultaneous: %d requesters, injected=%v -> %d pulls", n, cc.Injected, res.pulls))
		if res.pulls >= 2 {
			evid.Nontrivial(evid.FP("concurrent", cc.key()))
			evid.Class("simultaneous: two or more requests missed the registry and pulled")
		}
		if evid.WantSample("simultaneous") {
			evid.Sample("simultaneous", map[string]any{"case": cc, "pulls": res.pulls, "windows_fired": res.fired})
		}
		if len(res.failures) > 0 {
			evid.Violation(t, "concurrent/"+res.failures[0].check, cc, "case {%s}:%s", cc.key(), joinFailures(res.failures))
		}
	})
}

// TestFixedWitnesses re-executes the minimal witnesses of the defects this
// check found and that were repaired in ipchub (regression guard).
func TestFixedWitnesses(t *testing.T) {
	base := func() *scenario {
		return &scenario{Audio: false, Creds: "right", User: "admin", Pass: "pw", Initial: 2, Consumers: 1, Live: 3, End: int(fakecam.AfterEOF), Mode: "direct", FollowUp: true}
	}
	var scs []*scenario
	// a camera that accepts and never answers used to hang the requester for ever
	s1 := base()
	s1.Name = "witness: silent camera"
	s1.Steps[fakecam.Options] = fakecam.Behaviour{Kind: fakecam.Silence}
	// a media section without format used to panic in requestSDP and leak the connection
	s2 := base()
	s2.Name = "witness: m=video 0 udp 96"
	s2.Steps[fakecam.Describe] = fakecam.Behaviour{Kind: fakecam.FormatlessSDP, Variant: 0}
	// a route URL without path used to panic in getSetupURL
	s3 := base()
	s3.Name = "witness: rtsp://host:port without path"
	s3.URLShape = "nopath"
	scs = append(scs, s1, s2, s3)
	runBatch(t, "fixed-witness", scs)
}

// TestRequesterClassification: the RTSP requester tells a connection that ends
// (FIN / RST, also in the middle of an answer) from output that is no RTSP, and
// a close is acceptable only for scenarios in which the camera deviates or ends
// the play phase by itself. Deterministic: the "server" is a stub.
func TestRequesterClassification(t *testing.T) {
	stub := func(onDescribe func(nc net.Conn)) string {
		ln, err := net.Listen("tcp4", "127.0.0.1:0")
		if err != nil {
			t.Fatal(err)
		}
		go func() {
			defer ln.Close()
			nc, err := ln.Accept()
			if err != nil {
				return
			}
			defer nc.Close()
			br := bufio.NewReader(nc)
			n := 0
			for {
				line, err := br.ReadString('\n')
				if err != nil {
					return
				}
				if line != "\r\n" {
					continue
				}
				n++
				if n <= 2 { // the requester's own OPTIONS and Play's OPTIONS
					fmt.Fprintf(nc, "RTSP/1.0 200 OK\r\nCSeq: %d\r\n\r\n", n)
					continue
				}
				onDescribe(nc)
				return
			}
		}()
		return ln.Addr().String()
	}
	cases := []struct {
		name string
		do   func(nc net.Conn)
		want string
	}{
		{"FIN after 9 bytes of the answer", func(nc net.Conn) { nc.Write([]byte("RTSP/1.0 ")) }, "closed"},
		{"FIN before any byte", func(nc net.Conn) {}, "closed"},
		{"RST inside the header block", func(nc net.Conn) {
			nc.Write([]byte("RTSP/1.0 200 OK\r\nCSeq: 3\r\nContent-Le"))
			nc.(*net.TCPConn).SetLinger(0)
		}, "closed"},
		{"404", func(nc net.Conn) { nc.Write([]byte("RTSP/1.0 404 Not Found\r\nCSeq: 3\r\n\r\n")) }, "nil"},
		{"garbage", func(nc net.Conn) {
			nc.Write([]byte("\x00\x01 this is no RTSP\r\n\r\n"))
			time.Sleep(50 * time.Millisecond)
		}, "panic"},
		{"500", func(nc net.Conn) { nc.Write([]byte("RTSP/1.0 500 Internal Server Error\r\nCSeq: 3\r\n\r\n")) }, "panic"},
	}
	for _, c := range cases {
		q := &rtspRequester{addr: stub(c.do)}
		got, _, detail := q.request("/c20/classify", func() {})
		q.release()
		evid.Eval(1)
		if got != c.want {
			t.Fatalf("%s: classified as %q (%s), want %q", c.name, got, detail, c.want)
		}
	}
	// acceptance
	healthy := &scenario{Audio: true, Creds: "right", End: int(fakecam.AfterEOF)}
	endsAtOnce := &scenario{Audio: true, Creds: "right", End: int(fakecam.AfterEOF), AutoFinish: true}
	deviates := &scenario{Audio: true, Creds: "right"}
	deviates.Steps[fakecam.Describe] = fakecam.Behaviour{Kind: fakecam.RST}
	challenged := &scenario{Audio: true, Creds: "right"}
	challenged.Steps[fakecam.Describe] = fakecam.Behaviour{Kind: fakecam.Digest401, N: 1}
	if healthy.closeAcceptable() || challenged.closeAcceptable() || !endsAtOnce.closeAcceptable() || !deviates.closeAcceptable() {
		t.Fatalf("closeAcceptable: healthy=%v challenged=%v endsAtOnce=%v deviates=%v", healthy.closeAcceptable(), challenged.closeAcceptable(), endsAtOnce.closeAcceptable(), deviates.closeAcceptable())
	}
}
