package c20

import (
	"bytes"
	"encoding/json"
	"fmt"
	"os"
	"sort"
	"strings"
	"sync"
	"testing"

	"github.com/cnotch/xlog"
	"verif/harness/lib/evid"
	"verif/harness/lib/fakecam"
)

type syncBuf struct {
	mu sync.Mutex
	b  bytes.Buffer
}

func (s *syncBuf) Write(p []byte) (int, error) {
	s.mu.Lock()
	defer s.mu.Unlock()
	if s.b.Len() > 8<<20 {
		s.b.Reset()
	}
	return s.b.Write(p)
}

var logs syncBuf

func TestMain(m *testing.M) {
	if os.Getenv("VERIF_LOG") == "" { // ipchub logs every failed pull; keep stderr readable
		xlog.ReplaceGlobal(xlog.New(xlog.NewCore(xlog.NewConsoleEncoder(xlog.LstdFlags), xlog.Lock(&logs), xlog.InfoLevel)))
	}
	evid.Main(m, "C20")
}

// serial: scenarios observe process-wide state (registry, connection counter,
// goroutine profile, descriptors), so only one runs at a time.
var serial sync.Mutex

const ruleText = "fault enumeration: a scripted fake RTSP camera (lib/fakecam, from RFC 2326/2617) behind a route; every (handshake step x camera behaviour) pair — accept/OPTIONS/DESCRIBE/SETUP video/SETUP audio/PLAY x {ok, 401 Basic x1..3, 401 Digest x1..3, 4xx/5xx codes, malformed Status-Line forms, malformed header forms, garbage SDP forms, format-less SDP forms, silence / RST / early EOF before or in the middle of the answer, refused connect, unsolicited banner} — and every way of ending the play phase (server-side close, EOF, RST, silence, garbage forms; with 0..2 consumers attached) is enumerated, then rapid draws multi-fault vectors (credentials right/absent/wrong/MD5-stored, Basic<->Digest switches, directory routes, audio on/off, paced live packets) and 2..4 simultaneous first requests ordered through the getorcreate.missed schedule point; requests go through media.GetOrCreate and through the in-process server (RTSP DESCRIBE, HTTP-FLV, HLS). Oracle from the camera's record + registry + counters + goroutine profile + descriptors. Non-trivial = the fault comes after at least one successful step, or during play with a consumer attached"

func classify(sc *scenario, res *result) {
	exp, fstep, okBefore := sc.expect()
	evid.Class("expect=" + exp.String() + " outcome=" + res.outcome)
	nt := false
	if fstep >= 0 {
		evid.Class("first deviation at " + fstep.String() + ": " + sc.Steps[fstep].Kind.String())
		if okBefore >= 1 && !(exp == mustSucceed) {
			nt = true
		}
		if exp == mustSucceed { // challenged once and went on
			nt = true
		}
	}
	if res.outcome == "stream" {
		evid.Class("play ends by " + fakecam.After(sc.End).String() + fmt.Sprintf(" consumers=%d", sc.Consumers))
		if sc.Consumers > 0 && (fakecam.After(sc.End) != fakecam.Continue || sc.Live > 0) {
			nt = true
		}
		if res.keepAlives > 0 {
			evid.Class("keep-alive requests answered during play")
		}
		if res.regAtOnce {
			evid.Class("registered when the request returned")
		} else {
			evid.Class("registered only after the request returned")
		}
	}
	if nt {
		evid.Nontrivial(evid.FP(sc.key()))
	}
	cls := "handshake " + exp.String()
	if evid.WantSample(cls) {
		evid.Sample(cls, map[string]any{"scenario": sc.key(), "outcome": res.outcome, "camera": renderConns(res.cam)})
	}
}

// report turns the failures of a batch of scenarios into one violation that
// names every distinct failing check with its first witness.
func report(t evid.TB, name string, failed map[string]*scenario, msgs map[string]string) {
	if len(failed) == 0 {
		return
	}
	var ks []string
	for k := range failed {
		ks = append(ks, k)
	}
	sort.Strings(ks)
	var b strings.Builder
	for _, k := range ks {
		fmt.Fprintf(&b, "\n- %s: scenario {%s}: %s", k, failed[k].key(), msgs[k])
	}
	evid.Violation(t, name+"/"+ks[0], failed[ks[0]], "%d failing check(s):%s", len(ks), b.String())
}

// enumeration builds every single-deviation scenario.
func enumeration() []*scenario {
	var out []*scenario
	mk := func(st fakecam.Step, b fakecam.Behaviour) *scenario {
		sc := &scenario{Audio: true, Creds: "right", User: "admin", Pass: "pa:ss@w/rd", Initial: 3, Consumers: 1, Live: 4,
			End: int(fakecam.AfterEOF), Mode: "direct", FollowUp: true, CacheGop: true}
		sc.Steps[st] = b
		sc.Name = fmt.Sprintf("%s x %s", st, b)
		return sc
	}
	for st := fakecam.Accept; st < fakecam.NumSteps; st++ {
		for k := fakecam.OK; k < fakecam.NumKinds; k++ {
			if !fakecam.Applicable(k, st) {
				continue
			}
			switch k {
			case fakecam.Basic401, fakecam.Digest401:
				for n := 1; n <= 3; n++ {
					out = append(out, mk(st, fakecam.Behaviour{Kind: k, N: n}))
				}
			case fakecam.Status:
				for _, code := range []int{400, 401, 403, 404, 454, 461, 500, 503} {
					out = append(out, mk(st, fakecam.Behaviour{Kind: k, Code: code}))
				}
			default:
				for v := 0; v < fakecam.Variants(k, st); v++ {
					out = append(out, mk(st, fakecam.Behaviour{Kind: k, Variant: v}))
				}
			}
		}
	}
	return out
}

func runBatch(t *testing.T, name string, scs []*scenario, rq requester) {
	failed := map[string]*scenario{}
	msgs := map[string]string{}
	for _, sc := range scs {
		serial.Lock()
		res := runScenario(sc, rq)
		serial.Unlock()
		evid.Eval(1)
		classify(sc, res)
		for _, f := range res.failures {
			if _, dup := failed[f.check]; !dup {
				failed[f.check] = sc
				msgs[f.check] = f.msg
			}
			if os.Getenv("C20_VERBOSE") != "" {
				t.Logf("FAIL %s | %s | %s", sc.key(), f.check, firstLine(f.msg))
			}
		}
	}
	report(t, name, failed, msgs)
}

func firstLine(s string) string {
	if i := strings.IndexByte(s, '\n'); i >= 0 {
		return s[:i]
	}
	return s
}

// TestSingleFaultEnumeration: every (step x behaviour) pair, one deviation per
// scenario, requested directly through media.GetOrCreate.
func TestSingleFaultEnumeration(t *testing.T) {
	evid.Rule(ruleText)
	evid.Assume("the fake camera is trusted (self-tests in lib/fakecam: RFC 2617 §3.5 worked example, ipchub's and RFC 2326's own request samples, a hand-written client)")
	scs := enumeration()
	evid.ClassN("enumerated (step x behaviour) pairs", int64(len(scs)))
	runBatch(t, "single-fault", scs, directRequester{})
}

// TestReplayFile re-runs one saved scenario.
func TestReplayFile(t *testing.T) {
	p := os.Getenv("VERIF_REPLAY_FILE")
	if p == "" {
		t.Skip("no replay file")
	}
	b, err := os.ReadFile(p)
	if err != nil {
		t.Fatal(err)
	}
	var doc struct {
		Case scenario `json:"case"`
	}
	if err := json.Unmarshal(b, &doc); err != nil {
		t.Fatal(err)
	}
	sc := doc.Case
	serial.Lock()
	res := runScenario(&sc, requesterFor(sc.Mode))
	serial.Unlock()
	for _, f := range res.failures {
		t.Errorf("%s: %s", f.check, f.msg)
	}
}

func requesterFor(mode string) requester {
	return directRequester{}
}
