package c20

import (
	"testing"

	"verif/harness/lib/fakecam"
)

func TestDbg(t *testing.T) {
	sc := &scenario{Audio: true, Creds: "right", User: "admin", Pass: "pw", Initial: 3, Consumers: 1, Live: 4, End: int(fakecam.AfterEOF), Mode: "rtsp"}
	res := runScenario(sc, requesterFor(sc.Mode))
	t.Logf("outcome %s", res.outcome)
	for _, f := range res.failures {
		t.Logf("%s: %s", f.check, f.msg)
	}
	t.Logf("%s", renderConns(res.cam))
}
