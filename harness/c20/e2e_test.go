package c20

import (
	"bytes"
	"errors"
	"fmt"
	"io"
	"net"
	"net/http"
	"strings"
	"sync"
	"syscall"
	"time"

	"github.com/cnotch/ipchub/media"
	"verif/harness/lib/fakecam"
	"verif/harness/lib/rtspc"
	"verif/harness/lib/srv"
)

var (
	srvOnce sync.Once
	theSrv  *srv.Server
)

// server returns the one in-process ipchub server of this test binary
// (auth off, HLS fragments of 1 s so that a playlist fills quickly).
func server() *srv.Server {
	srvOnce.Do(func() {
		theSrv = srv.Start(srv.Options{Auth: false, CacheGop: false, HlsFragment: 1, NetTimeout: longNet, Heartbeat: heartbeat})
	})
	return theSrv
}

func requesterFor(mode string) requester {
	switch mode {
	case "rtsp":
		return &rtspRequester{}
	case "flv":
		return &httpRequester{ext: ".flv"}
	case "hls":
		return &httpRequester{ext: ".m3u8"}
	}
	return directRequester{}
}

// ---------------------------------------------------------------- RTSP player

type rtspRequester struct {
	c      *rtspc.Client
	tracks int
	base   [2]int // first interleaved channel of the video / audio track as this player set them up (SDP order)
	addr   string // "" = the in-process server (tests of the classification point it at a stub)
}

// connectionEnded reports whether err says that the peer ended the connection
// (FIN, RST, or the stream of bytes stopping inside an item), as opposed to
// sending something that is no RTSP.
func connectionEnded(err error) bool {
	if err == nil {
		return false
	}
	var fe *rtspc.FramingError
	if errors.As(err, &fe) {
		return fe.Truncated
	}
	return errors.Is(err, io.EOF) || errors.Is(err, io.ErrUnexpectedEOF) || errors.Is(err, syscall.ECONNRESET) || errors.Is(err, syscall.EPIPE)
}

func (q *rtspRequester) request(path string, arm func()) (string, *media.Stream, string) {
	s := server()
	addr := s.Addr()
	if q.addr != "" {
		addr = q.addr
	}
	c, err := rtspc.Dial(addr, bound)
	if err != nil {
		return "panic", nil, "machinery: cannot connect to the in-process server: " + err.Error()
	}
	q.c = c
	c.Timeout = 2 * bound
	url := s.RTSP(path)
	// the server session exists (and has copied its own timeout) once it has answered
	if r, err := c.Do("OPTIONS", url, nil, nil); err != nil || r.Status != 200 {
		return "panic", nil, fmt.Sprintf("machinery: OPTIONS to the in-process server: %v %v", r, err)
	}
	arm()
	d, err := c.Play(url)
	if err != nil {
		var se *rtspc.StatusError
		if asStatus(err, &se) && se.Resp.Status == 404 {
			// not found at DESCRIBE, or at SETUP / PLAY (ipchub looks the stream up again
			// there; it may have ended since DESCRIBE)
			return "nil", nil, se.Method + " answered 404"
		}
		if connectionEnded(err) {
			// the server hung up on the player while DESCRIBE / SETUP / PLAY was under way:
			// an orderly close from the requester's point of view, not an answer
			return "closed", nil, err.Error()
		}
		return "panic", nil, "the RTSP requester got neither a stream nor 404 nor a close: " + err.Error()
	}
	q.tracks = len(d.Tracks)
	q.base = [2]int{-1, -1}
	for i, ct := range rtspc.Controls(d.SDP) { // Play sets up section i on channels 2i, 2i+1
		switch ct.Media {
		case "video":
			q.base[0] = 2 * i
		case "audio":
			q.base[1] = 2 * i
		}
	}
	// ipchub answers PLAY before it attaches the player to the stream; what is
	// published in between is legitimately not for this player. Wait for the attach
	// (unless the stream is already gone again).
	waitCond(func() bool { return srv.Consumers(path) != 0 })
	return "stream", nil, d.SDP
}

func asStatus(err error, target **rtspc.StatusError) bool {
	for err != nil {
		if se, ok := err.(*rtspc.StatusError); ok {
			*target = se
			return true
		}
		u, ok := err.(interface{ Unwrap() error })
		if !ok {
			return false
		}
		err = u.Unwrap()
	}
	return false
}

// verifyWire: the interleaved frames the player received are frames the camera
// sent (nothing invented), and from the first live frame on they are exactly
// the live frames, in order, on the channel of their track.
func (q *rtspRequester) verifyWire(sentAll, live []fakecam.Frame, push func() *fakecam.Frame) string {
	if q.c == nil || len(live) == 0 {
		return ""
	}
	known := map[string]fakecam.Frame{}
	for _, f := range sentAll {
		known[string(f.Data)] = f
	}
	last := string(live[len(live)-1].Data)
	var got []rtspc.Frame
	deadline := time.Now().Add(bound)
	seen := func() bool {
		for _, g := range got {
			if string(g.Payload) == last {
				return true
			}
		}
		return false
	}
	for {
		got = append(got, q.c.TakeFrames()...)
		if seen() {
			break
		}
		if time.Now().After(deadline) {
			cp := q.c.Captured()
			desc := ""
			for _, g := range got {
				idx := -1
				for i, f := range sentAll {
					if string(f.Data) == string(g.Payload) {
						idx = i
					}
				}
				desc += fmt.Sprintf("%d/ch%d ", idx, g.Channel)
			}
			return fmt.Sprintf("the RTSP player received %d frames and not the last of the %d live frames (programme index %d) within %v (captured %d bytes, unparsed %d); programme indices received: %s", len(got), len(live), len(sentAll)-1, bound, len(cp), q.c.Unparsed(), desc)
		}
		it, err := q.c.ReadItemTimeout(50 * time.Millisecond)
		if err == rtspc.ErrTimeout {
			// ipchub's connection buffer holds back what is written within 1/30 s of the
			// previous write until the next write comes (documented: not a loss); one
			// more frame from the camera pushes the tail out
			if f := push(); f != nil {
				known[string(f.Data)] = *f
			}
			continue
		}
		if err != nil {
			return fmt.Sprintf("the RTSP player's connection failed after %d frames: %v", len(got), err)
		}
		if it.Frame != nil {
			got = append(got, *it.Frame)
		}
	}
	start := -1
	for i, g := range got {
		f, ok := known[string(g.Payload)]
		if !ok {
			return fmt.Sprintf("frame %d received by the RTSP player (channel %d, %d bytes) was never sent by the camera", i, g.Channel, len(g.Payload))
		}
		want := byte(q.base[f.Track])
		if f.Control {
			want++
		}
		if g.Channel != want {
			return fmt.Sprintf("frame %d arrived on channel %d, it belongs to channel %d", i, g.Channel, want)
		}
		if start < 0 && string(g.Payload) == string(live[0].Data) {
			start = i
		}
	}
	if start < 0 || len(got)-start < len(live) {
		return fmt.Sprintf("the RTSP player received %d frames from the first live frame on (index %d of %d), the camera sent %d", len(got)-start, start, len(got), len(live))
	}
	for i := range live {
		if !bytes.Equal(got[start+i].Payload, live[i].Data) {
			return fmt.Sprintf("live frame %d reached the RTSP player out of order or changed", i)
		}
	}
	return ""
}

func (q *rtspRequester) setFeed(func()) {}

func (q *rtspRequester) release() {
	if q.c != nil {
		q.c.Close()
		q.c = nil
	}
}

// ---------------------------------------------------------------- HTTP-FLV / HLS

type httpRequester struct {
	ext  string
	feed func()
	resp *http.Response
	mu   sync.Mutex
	got  []byte
	done chan struct{}
}

var httpClient = &http.Client{Transport: &http.Transport{DisableKeepAlives: true, DialContext: (&net.Dialer{Timeout: bound}).DialContext}}

func (q *httpRequester) request(path string, arm func()) (string, *media.Stream, string) {
	s := server()
	arm()
	answered := make(chan struct{})
	fed := make(chan struct{})
	go func() { // keep the camera sending until the answer has left the server
		defer close(fed)
		for {
			select {
			case <-answered:
				return
			case <-time.After(2 * time.Millisecond):
				if q.feed != nil {
					q.feed()
				}
			}
		}
	}()
	resp, err := httpClient.Get(s.HTTP() + "/streams" + path + q.ext)
	close(answered)
	<-fed
	if err != nil {
		if connectionEnded(err) || strings.Contains(err.Error(), "EOF") || strings.Contains(err.Error(), "connection reset") {
			// net/http wraps the end of the connection before / inside the header block
			return "closed", nil, err.Error()
		}
		return "panic", nil, "the HTTP requester got no answer: " + err.Error()
	}
	q.resp = resp
	q.done = make(chan struct{})
	go func() {
		defer close(q.done)
		buf := make([]byte, 256) // small: a chunked body reader blocks until its buffer is full or the chunk ends
		for {
			n, err := resp.Body.Read(buf)
			q.mu.Lock()
			if len(q.got) < 1<<20 {
				q.got = append(q.got, buf[:n]...)
			}
			q.mu.Unlock()
			if err != nil {
				return
			}
		}
	}()
	switch {
	case resp.StatusCode == 404:
		return "nil", nil, ""
	case resp.StatusCode == 200:
		return "stream", nil, ""
	case q.ext == ".m3u8" && resp.StatusCode == 400:
		// the stream exists, its playlist has not collected enough segments yet
		return "stream", nil, "playlist not ready"
	}
	return "panic", nil, fmt.Sprintf("the HTTP requester got status %d", resp.StatusCode)
}

func (q *httpRequester) verifyWire(sentAll, live []fakecam.Frame, push func() *fakecam.Frame) string {
	if q.resp == nil || q.ext != ".flv" || q.resp.StatusCode != 200 {
		return "" // (also: 404 because the stream has no FLV form)
	}
	ok := waitCond(func() bool {
		q.mu.Lock()
		defer q.mu.Unlock()
		return len(q.got) >= 13
	})
	q.mu.Lock()
	defer q.mu.Unlock()
	if !ok || !bytes.HasPrefix(q.got, []byte{'F', 'L', 'V', 1}) {
		return fmt.Sprintf("the HTTP-FLV requester received %d bytes that do not start with an FLV header: % x (status %d, header %v)", len(q.got), q.got[:min(len(q.got), 16)], q.resp.StatusCode, q.resp.Header)
	}
	return ""
}

func waitCond(f func() bool) bool {
	deadline := time.Now().Add(bound)
	for !f() {
		if time.Now().After(deadline) {
			return false
		}
		time.Sleep(200 * time.Microsecond)
	}
	return true
}

func (q *httpRequester) setFeed(feed func()) { q.feed = feed }

func (q *httpRequester) release() {
	if q.resp != nil {
		q.resp.Body.Close()
		<-q.done
		io.Copy(io.Discard, q.resp.Body)
		q.resp = nil
	}
}
