// C19 — routing does not depend on the listener's history. The statement
// quantifies over EVERY connection accepted on the shared port: how a connection
// is treated must not depend on how many earlier connections on the same
// listener ended unmatched, silent, or were given up by their client before a
// first line was complete. One listener per case, a generated cumulative history
// of hundreds (thorough: more than a thousand) of such connections, sequential
// and in small concurrent batches, with valid RTSP / HTTP probes interleaved and
// at the end.
package c19

import (
	"bytes"
	"fmt"
	"io"
	"net"
	"sync"
	"testing"
	"time"

	"pgregory.net/rapid"
	"verif/harness/lib/evid"
)

// Sniff timeout of the history listener. Silent connections are left open in the
// background (they cost this time at most once, at the end of the history), so the
// value can stay far above anything machine load does to a client that writes its
// request right after connecting.
const histSniff = 3 * time.Second

// how long a connection may take to be handed over / closed before it counts as stuck
const histBound = 15 * time.Second

type histConn struct {
	Kind  string `json:"kind"` // garbage-line | few-bytes-close | close-at-once | silent | probe
	Data  string `json:"data"`
	Split int    `json:"first_segment"` // 0 = one write
	Close string `json:"client_close"`  // "" (waits for the server) | close | half-close | reset
	Want  string `json:"want"`          // rtsp | http | closed
	Reads []int  `json:"stub_read_sizes,omitempty"`
}

type histOutcome struct {
	key     string
	dialErr error
	ended   bool // the server side ended the connection (EOF or reset), or the client gave it up itself
	stuck   bool // still open when the bound expired
	reply   string
	rec     *received
}

var histGarbage = []string{
	"\x16\x03\x01\x02\x00\x01\x00\x01\xfc\x03\x03 tls hello .......", "$\x00\x00\x10 interleaved frame first", "get / http/1.1\r\n\r\n",
	"options * RTSP/1.0\r\n\r\n", "describe rtsp://h/p RTSP/1.0\r\n\r\n", "\x00\x00\x00\x00\x00\x00\x00\x00\x00\x00\x00\x00\x00\x00\x00\x00\x00",
	"SSH-2.0-OpenSSH_8.4\r\n..........", " GET / HTTP/1.1\r\n\r\n", "\r\nGET / HTTP/1.1\r\n\r\n", "XDESCRIBE rtsp://h/p RTSP/1.0\r\n\r\n",
	"RTSP/1.0 200 OK\r\nCSeq: 1\r\n\r\n", "HTTP/1.1 200 OK\r\n\r\n.....", "\x03\x00\x00\x13\x0e\xe0\x00\x00\x00\x00\x00\x01\x00\x08\x00\x03\x00\x00\x00 rdp",
}

// strict prefixes of valid request lines, shorter than every method name: nothing can be identified from them
var histShortPrefix = []string{"", "D", "DE", "G", "GE", "O", "OP", "S", "SE", "P", "PO"}

func genHistUnmatched(t *rapid.T, allowSilent bool) histConn {
	kind := rapid.SampledFrom([]string{
		"garbage-line", "garbage-line", "garbage-line", "garbage-line", "garbage-line", "garbage-line", "garbage-line", "garbage-line",
		"few-bytes-close", "few-bytes-close", "few-bytes-close", "few-bytes-close", "few-bytes-close", "few-bytes-close",
		"close-at-once", "close-at-once", "close-at-once", "close-at-once", "close-at-once",
		"silent",
	}).Draw(t, "histKind")
	if kind == "silent" && !allowSilent {
		kind = "close-at-once"
	}
	hc := histConn{Kind: kind, Want: "closed"}
	switch kind {
	case "garbage-line":
		g := rapid.SampledFrom(histGarbage).Draw(t, "garbage")
		tail := rapid.SliceOfN(rapid.Byte(), 0, 24).Draw(t, "garbageTail")
		hc.Data = g + string(tail)
		for len(hc.Data) < 17 { // at least the sniff depth: the server decides without waiting for more
			hc.Data += "."
		}
		if rapid.Bool().Draw(t, "split") {
			hc.Split = rapid.IntRange(1, 15).Draw(t, "firstSegment")
		}
	case "few-bytes-close":
		if rapid.Bool().Draw(t, "validPrefix") {
			hc.Data = rapid.SampledFrom(histShortPrefix[1:]).Draw(t, "prefix")
		} else {
			g := rapid.SampledFrom(histGarbage).Draw(t, "garbage")
			hc.Data = g[:rapid.IntRange(1, 8).Draw(t, "fewBytes")]
		}
		hc.Close = rapid.SampledFrom([]string{"close", "half-close", "reset"}).Draw(t, "clientClose")
	case "close-at-once":
		hc.Close = rapid.SampledFrom([]string{"close", "reset"}).Draw(t, "clientClose")
	case "silent":
		hc.Data = rapid.SampledFrom(histShortPrefix).Draw(t, "prefix")
	}
	return hc
}

func genHistProbe(t *rapid.T, idx int, force string) histConn {
	proto := force
	if proto == "" {
		proto = rapid.SampledFrom([]string{"rtsp", "http"}).Draw(t, "probeProto")
	}
	var line string
	if proto == "rtsp" {
		if rapid.IntRange(0, 3).Draw(t, "probeOptions") == 0 {
			target := rapid.SampledFrom([]string{"*", "rtsp://h/p", "RTSP://h/p"}).Draw(t, "target")
			line = "OPTIONS " + target + " RTSP/1.0\r\nCSeq: 1\r\n\r\n"
		} else {
			m := rapid.SampledFrom(rtspMethods).Draw(t, "rtspMethod")
			target := rapid.SampledFrom([]string{"rtsp://h/p", "rtsp://10.0.0.1:554/live/a?x=1", "rtsp://[::1]/x"}).Draw(t, "target")
			line = m + " " + target + " RTSP/1.0\r\nCSeq: 1\r\n\r\n"
		}
	} else {
		if rapid.IntRange(0, 3).Draw(t, "probeOptions") == 0 {
			target := rapid.SampledFrom([]string{"/x", "http://h/", "/", "*"}).Draw(t, "target")
			line = "OPTIONS " + target + " HTTP/1.1\r\nHost: h\r\n\r\n"
		} else {
			m := rapid.SampledFrom(httpMethods).Draw(t, "httpMethod")
			target := rapid.SampledFrom([]string{"/", "/streams/a.flv", "/api/v1/login?x=y"}).Draw(t, "target")
			line = m + " " + target + " HTTP/1.1\r\nHost: h\r\n\r\n"
		}
	}
	payload := rapid.SliceOfN(rapid.Byte(), 0, 300).Draw(t, "payload")
	hc := histConn{Kind: "probe", Want: proto, Data: line + fmt.Sprintf("#probe-%d#", idx) + string(payload)}
	if rapid.Bool().Draw(t, "split") {
		hc.Split = rapid.IntRange(1, 15).Draw(t, "firstSegment")
	}
	hc.Reads = rapid.SliceOfN(rapid.SampledFrom([]int{1, 3, 7, 15, 16, 64, 4096}), 1, 3).Draw(t, "readSizes")
	return hc
}

// readEnd reads until the server side ends the connection or the bound expires.
func readEnd(c net.Conn, bound time.Duration) (reply string, ended, stuck bool) {
	c.SetReadDeadline(time.Now().Add(bound))
	b, err := io.ReadAll(c)
	if ne, ok := err.(net.Error); ok && ne.Timeout() {
		return string(b), false, true
	}
	return string(b), true, false // EOF or reset: the other side closed
}

// start runs the client side of one history connection. Silent connections
// return at once with a channel that delivers their outcome later.
func (m *mux) histRun(hc histConn) (histOutcome, <-chan histOutcome) {
	c, err := net.Dial("tcp", m.addr)
	if err != nil {
		return histOutcome{dialErr: err}, nil
	}
	tc := c.(*net.TCPConn)
	tc.SetNoDelay(true)
	out := histOutcome{key: c.LocalAddr().String()}
	data := []byte(hc.Data)
	write := func() {
		if hc.Split > 0 && hc.Split < len(data) {
			if _, err := c.Write(data[:hc.Split]); err != nil {
				return
			}
			c.Write(data[hc.Split:])
			return
		}
		if len(data) > 0 {
			c.Write(data)
		}
	}
	switch hc.Kind {
	case "silent":
		write()
		ch := make(chan histOutcome, 1)
		go func() {
			defer c.Close()
			out.reply, out.ended, out.stuck = readEnd(c, histSniff+histBound)
			ch <- out
		}()
		return out, ch
	case "probe":
		defer c.Close()
		done := make(chan struct{})
		m.mu.Lock()
		m.done[out.key] = done
		m.mu.Unlock()
		write()
		tc.CloseWrite()
		out.reply, out.ended, out.stuck = readEnd(c, histBound)
		m.mu.Lock()
		delete(m.done, out.key)
		m.mu.Unlock()
		out.rec = m.take(out.key)
		return out, nil
	default:
		defer c.Close()
		write()
		switch hc.Close {
		case "close":
			out.ended = true
		case "reset":
			tc.SetLinger(0)
			out.ended = true
		case "half-close":
			tc.CloseWrite()
			out.reply, out.ended, out.stuck = readEnd(c, histBound)
		default: // the server has to end it
			out.reply, out.ended, out.stuck = readEnd(c, histBound)
		}
		return out, nil
	}
}

type histDetail struct {
	Unmatched   int            `json:"history_len"`
	ProbeEvery  int            `json:"probe_every"`
	Before      map[string]int `json:"connections_before_by_kind"`
	InFlight    int            `json:"silent_connections_in_flight"`
	BatchSize   int            `json:"batch_size"`
	Conn        histConn       `json:"connection"`
	Got         string         `json:"got"`
	GotLen      int            `json:"got_len"`
	LastHistory []histConn     `json:"last_connections_before"`
}

func TestMuxUnmatchedHistory(tt *testing.T) {
	evid.Rule("rapid: ONE listener per case (service matcher order, stub services, sniff timeout 3 s) and a cumulative history of 300-400 (thorough 1200-1800) connections that end unmatched: a non-request first line of at least the sniff depth (whole or in two segments; the server must close it) / a few bytes (a 1-2 byte prefix of a method, or the start of a non-request line) then client close, half-close or reset / connect and close or reset at once / a few (1-5) silent ones left open in the background; sequential and in concurrent batches of 2-6; a valid RTSP or HTTP probe (method x target grammar, payload 0-300 bytes, whole or short first segment, stub read sizes 1..4096) every k=8..60 connections, alone or inside a batch, and one of each at the end. Oracle: every probe reaches exactly the stub of its protocol with its bytes intact within 15 s, every unmatched connection the server has to end is ended with no byte sent to the client, every silent one is closed within sniff timeout + 15 s, and no stub ever receives an unmatched connection. Non-trivial = a probe judged after at least one earlier unmatched connection on the same listener; distinct = distinct (probe line, number and kinds of earlier connections)")
	evid.Checks(2, 6)
	rapid.Check(tt, func(t *rapid.T) {
		lo, hi := 300, 400
		if evid.Thorough() {
			lo, hi = 1200, 1800
		}
		n := rapid.IntRange(lo, hi).Draw(t, "historyLen")
		every := rapid.IntRange(8, 60).Draw(t, "probeEvery")
		maxSilent := rapid.IntRange(1, 5).Draw(t, "maxSilent")

		// the plan: steps of 1..6 connections that run concurrently
		var plan [][]histConn
		unmatched, silent, sinceProbe, probes := 0, 0, 0, 0
		for unmatched < n {
			bs := rapid.SampledFrom([]int{1, 1, 1, 1, 1, 2, 3, 4, 6}).Draw(t, "batch")
			var step []histConn
			for i := 0; i < bs; i++ {
				hc := genHistUnmatched(t, silent < maxSilent)
				if hc.Kind == "silent" {
					silent++
				}
				step = append(step, hc)
			}
			unmatched += bs
			sinceProbe += bs
			if sinceProbe >= every {
				sinceProbe = 0
				p := genHistProbe(t, probes, "")
				probes++
				if rapid.Bool().Draw(t, "probeInsideBatch") {
					step = append(step, p)
				} else {
					plan = append(plan, step)
					step = []histConn{p}
				}
			}
			plan = append(plan, step)
		}
		first := rapid.SampledFrom([]string{"rtsp", "http"}).Draw(t, "finalFirst")
		second := "http"
		if first == "http" {
			second = "rtsp"
		}
		plan = append(plan, []histConn{genHistProbe(t, probes, first)}, []histConn{genHistProbe(t, probes+1, second)})

		m := newMux(tt, histSniff)
		defer m.l.Close()

		before := map[string]int{}
		var recent []histConn
		type pending struct {
			hc histConn
			ch <-chan histOutcome
		}
		var silentOpen []pending
		unmatchedKeys := map[string]histConn{}
		nBefore := 0

		detail := func(hc histConn, bs int) *histDetail {
			d := &histDetail{Unmatched: n, ProbeEvery: every, Before: map[string]int{}, InFlight: len(silentOpen), BatchSize: bs, Conn: hc, LastHistory: recent}
			for k, v := range before {
				d.Before[k] = v
			}
			if len(d.Conn.Data) > 120 {
				d.Conn.Data = d.Conn.Data[:120]
			}
			return d
		}
		judge := func(hc histConn, o histOutcome, bs int) {
			d := detail(hc, bs)
			if o.dialErr != nil {
				t.Fatalf("dial: %v (machinery)", o.dialErr)
			}
			evid.Eval(1)
			if hc.Kind == "probe" {
				switch {
				case o.rec != nil:
					d.Got, d.GotLen = o.rec.service, len(o.rec.data)
				case o.stuck:
					d.Got = "neither handed to a service nor closed"
				default:
					d.Got = "closed"
				}
				if o.rec == nil && o.stuck {
					evid.Violation(t, "history-stuck", d, "valid %s connection (first line %q) opened after %d earlier connections on this listener that ended unmatched (%v): neither handed to a service nor closed within %v", hc.Want, firstLineOf(hc.Data), nBefore, before, histBound)
				}
				if d.Got != hc.Want {
					evid.Violation(t, "history-routing", d, "valid %s connection (first line %q) opened after %d earlier unmatched connections (%v): reached %q", hc.Want, firstLineOf(hc.Data), nBefore, before, d.Got)
				}
				if !bytes.Equal(o.rec.data, []byte(hc.Data)) {
					evid.Violation(t, "history-bytes", d, "valid %s connection after %d earlier unmatched connections: service read %d bytes %q…, the client wrote %d bytes %q…", hc.Want, nBefore, len(o.rec.data), trunc(o.rec.data), len(hc.Data), trunc([]byte(hc.Data)))
				}
				if o.reply != o.rec.service[:1] {
					evid.Violation(t, "history-reply", d, "client got reply %q from the server side, service was %q", o.reply, o.rec.service)
				}
				if nBefore > 0 {
					evid.Nontrivial(evid.FP("history-probe", hc.Data, hc.Split, nBefore, fmt.Sprint(before)))
				}
				switch {
				case nBefore < 100:
					evid.Class("history: valid probe routed after < 100 unmatched connections on the listener")
				case nBefore < 300:
					evid.Class("history: valid probe routed after 100-299 unmatched connections on the listener")
				case nBefore < 1000:
					evid.Class("history: valid probe routed after 300-999 unmatched connections on the listener")
				default:
					evid.Class("history: valid probe routed after >= 1000 unmatched connections on the listener")
				}
				if bs > 1 {
					evid.Class("history: valid probe concurrent with unmatched connections")
				}
				return
			}
			// unmatched kinds
			unmatchedKeys[o.key] = hc
			if o.stuck {
				d.Got = "still open"
				evid.Violation(t, "history-not-closed", d, "%s connection (%q, client %s) opened after %d earlier unmatched connections (%v) was still open %v later", hc.Kind, trunc([]byte(hc.Data)), closeWord(hc.Close), nBefore, before, histBound)
			}
			if o.reply != "" {
				d.Got = "reply " + o.reply
				evid.Violation(t, "history-unmatched-replied", d, "%s connection (%q) got reply %q from a service", hc.Kind, trunc([]byte(hc.Data)), o.reply)
			}
			evid.Class("history: " + hc.Kind + clientCloseSuffix(hc.Close))
		}

		for _, step := range plan {
			outs := make([]histOutcome, len(step))
			chans := make([]<-chan histOutcome, len(step))
			for _, hc := range step {
				if hc.Kind == "probe" {
					m.mu.Lock()
					m.readSize = hc.Reads
					m.copyFrom = 0
					m.mu.Unlock()
				}
			}
			if len(step) == 1 {
				outs[0], chans[0] = m.histRun(step[0])
			} else {
				var wg sync.WaitGroup
				start := make(chan struct{})
				for i := range step {
					wg.Add(1)
					go func(i int) {
						defer wg.Done()
						<-start
						outs[i], chans[i] = m.histRun(step[i])
					}(i)
				}
				close(start)
				wg.Wait()
				evid.Class(fmt.Sprintf("history: batch of %d concurrent connections", len(step)))
			}
			// probes of a batch are judged against the history before the batch
			for i, hc := range step {
				if hc.Kind == "probe" {
					judge(hc, outs[i], len(step))
				}
			}
			for i, hc := range step {
				if hc.Kind == "probe" {
					continue
				}
				if hc.Kind == "silent" {
					if outs[i].dialErr != nil {
						t.Fatalf("dial: %v (machinery)", outs[i].dialErr)
					}
					silentOpen = append(silentOpen, pending{hc, chans[i]})
				} else {
					judge(hc, outs[i], len(step))
				}
				before[hc.Kind]++
				nBefore++
				short := hc
				if len(short.Data) > 40 {
					short.Data = short.Data[:40]
				}
				recent = append(recent, short)
				if len(recent) > 8 {
					recent = recent[1:]
				}
			}
		}
		// the silent ones: closed by the sniff timeout
		for _, p := range silentOpen {
			o := <-p.ch
			judge(p.hc, o, 1)
		}
		silentOpen = nil
		// nothing invented: every probe's record was taken, so whatever is left was an unmatched connection
		m.mu.Lock()
		var left []string
		for key, rec := range m.got {
			hc := unmatchedKeys[key]
			left = append(left, fmt.Sprintf("%s %q -> %s (%d bytes)", hc.Kind, trunc([]byte(hc.Data)), rec.service, len(rec.data)))
		}
		m.mu.Unlock()
		if len(left) > 0 {
			evid.Violation(t, "history-unmatched-routed", map[string]any{"history_len": n, "routed": left}, "%d connection(s) of the history that carried no request line were handed to a service: %v", len(left), left)
		}
		evid.Class(fmt.Sprintf("history: %d silent connections in one history", before["silent"]))
		evid.Nontrivial(evid.FP("history", n, every, fmt.Sprint(before)))
		evid.Sample("history", map[string]any{"history_len": n, "probe_every": every, "probes": probes + 2, "by_kind": before})
	})
}

func firstLineOf(s string) string {
	if i := bytes.IndexByte([]byte(s), '\r'); i >= 0 {
		return s[:i]
	}
	return s
}

func closeWord(c string) string {
	if c == "" {
		return "keeps it open"
	}
	return c
}

func clientCloseSuffix(c string) string {
	if c == "" {
		return ""
	}
	return " (client " + c + ")"
}
