// C19 — port multiplexing routes each connection to the right protocol and
// loses no byte. A real listener.New("127.0.0.1:0") with rtsp.MatchRTSP() then
// listener.MatchHTTP() registered in the service's order; stub RTSP and HTTP
// "servers" read everything with generated read sizes; clients send first lines
// from the method × target × version grammar (or garbage, or nothing) followed by
// a generated payload, in generated write segments.
package c19

import (
	"bytes"
	"crypto/tls"
	"fmt"
	"io"
	"net"
	"strings"
	"sync"
	"testing"
	"time"

	"github.com/cnotch/ipchub/network/socket/listener"
	"github.com/cnotch/ipchub/service/rtsp"
	"pgregory.net/rapid"
	"verif/harness/lib/evid"
)

func TestMain(m *testing.M) { evid.Main(m, "C19") }

type received struct {
	service string
	data    []byte
	reads   []int
}

// mux is one listener with two stub services.
type mux struct {
	l    *listener.Listener
	addr string

	mu       sync.Mutex
	readSize []int                // read-buffer sizes the stub cycles through (current case)
	copyFrom int                  // > 0: after copyFrom-1 plain reads the stub takes the rest with io.Copy (0 = plain reads only)
	got      map[string]*received // by client address
	done     map[string]chan struct{}
}

func newMux(t testing.TB, sniffTimeout time.Duration) *mux { return newMuxTLS(t, sniffTimeout, nil) }

// newMuxTLS: the same multiplexer behind TLS when conf is set (the documented
// "tls" listener of the server is this listener with a certificate).
func newMuxTLS(t testing.TB, sniffTimeout time.Duration, conf *tls.Config) *mux {
	l, err := listener.New("127.0.0.1:0", conf)
	if err != nil {
		t.Fatalf("listen: %v", err)
	}
	m := &mux{l: l, addr: l.Addr().String(), got: map[string]*received{}, done: map[string]chan struct{}{}}
	l.SetReadTimeout(sniffTimeout)
	l.HandleError(func(error) bool { return true })
	// same order as service.(*Service).listen
	l.ServeAsync(rtsp.MatchRTSP(), func(nl net.Listener) error { return m.stub("rtsp", nl) })
	l.ServeAsync(listener.MatchHTTP(), func(nl net.Listener) error { return m.stub("http", nl) })
	go l.Serve()
	return m
}

func (m *mux) stub(name string, nl net.Listener) error {
	for {
		c, err := nl.Accept()
		if err != nil {
			return err
		}
		go m.serveConn(name, c)
	}
}

func (m *mux) serveConn(name string, c net.Conn) {
	defer c.Close()
	key := c.RemoteAddr().String()
	m.mu.Lock()
	sizes := append([]int(nil), m.readSize...)
	copyFrom := m.copyFrom
	m.mu.Unlock()
	if len(sizes) == 0 {
		sizes = []int{4096}
	}
	rec := &received{service: name}
	c.SetReadDeadline(time.Now().Add(30 * time.Second))
	for i := 0; ; i++ {
		if copyFrom > 0 && i == copyFrom-1 {
			// a service may hand the connection to io.Copy (a relay, a file sink): that
			// goes through io.WriterTo / io.ReaderFrom fast paths when the connection
			// type offers them (after seeded change C19-R6A)
			var rest bytes.Buffer
			io.Copy(&rest, c)
			rec.data = append(rec.data, rest.Bytes()...)
			break
		}
		buf := make([]byte, sizes[i%len(sizes)])
		n, err := c.Read(buf)
		if n > 0 {
			rec.data = append(rec.data, buf[:n]...)
			if len(rec.reads) < 8 {
				rec.reads = append(rec.reads, n)
			}
		}
		if err != nil {
			break
		}
	}
	m.mu.Lock()
	if old, dup := m.got[key]; dup {
		// the same connection reached two services
		old.service += "+" + name
	} else {
		m.got[key] = rec
	}
	ch := m.done[key]
	m.mu.Unlock()
	// tell the client we are done: one byte naming the service, then close
	c.Write([]byte(name[:1]))
	if ch != nil {
		close(ch)
	}
}

func (m *mux) take(key string) *received {
	m.mu.Lock()
	defer m.mu.Unlock()
	r := m.got[key]
	delete(m.got, key)
	return r
}

// ---------------------------------------------------------------- grammar

var rtspMethods = []string{"DESCRIBE", "ANNOUNCE", "SETUP", "PLAY", "PAUSE", "TEARDOWN", "GET_PARAMETER", "SET_PARAMETER", "RECORD", "REDIRECT"}
var httpMethods = []string{"GET", "HEAD", "POST", "PATCH", "PUT", "DELETE", "TRACE", "CONNECT"}

type firstLine struct {
	Text string
	Want string // "rtsp" | "http" | "closed"
	Kind string
}

func genFirstLine(t *rapid.T) firstLine {
	switch rapid.IntRange(0, 9).Draw(t, "lineKind") {
	case 0, 1, 2: // RTSP request line
		m := rapid.SampledFrom(rtspMethods).Draw(t, "rtspMethod")
		target := rapid.SampledFrom([]string{"rtsp://h/p", "rtsp://10.0.0.1:554/live/a?x=1", "RTSP://h/p", "rtsp://[::1]/x", "*"}).Draw(t, "target")
		ver := rapid.SampledFrom([]string{"RTSP/1.0", "rtsp/1.0"}).Draw(t, "ver")
		return firstLine{m + " " + target + " " + ver + "\r\nCSeq: 1\r\n\r\n", "rtsp", "rtsp-method"}
	case 3, 4: // HTTP request line
		m := rapid.SampledFrom(httpMethods).Draw(t, "httpMethod")
		target := rapid.SampledFrom([]string{"/", "/streams/a.flv", "http://h/", "/api/v1/login?x=y"}).Draw(t, "target")
		ver := rapid.SampledFrom([]string{"HTTP/1.1", "HTTP/1.0"}).Draw(t, "ver")
		return firstLine{m + " " + target + " " + ver + "\r\nHost: h\r\n\r\n", "http", "http-method"}
	case 5, 6, 7: // OPTIONS: RTSP exactly when target is '*' with an RTSP version, or an rtsp:// URL
		target := rapid.SampledFrom([]string{"*", "/x", "rtsp://h/p", "RTSP://h/p", "http://h/", "/"}).Draw(t, "target")
		ver := rapid.SampledFrom([]string{"RTSP/1.0", "rtsp/1.0", "HTTP/1.1"}).Draw(t, "ver")
		lt := strings.ToLower(target)
		want := "http"
		if strings.HasPrefix(lt, "rtsp://") || (target == "*" && strings.HasPrefix(strings.ToLower(ver), "rtsp")) {
			want = "rtsp"
		}
		return firstLine{"OPTIONS " + target + " " + ver + "\r\nCSeq: 1\r\n\r\n", want, "options-" + want}
	default: // not a request line of either protocol
		g := rapid.SampledFrom([]string{
			"\x16\x03\x01\x02\x00\x01\x00\x01\xfc\x03\x03 tls hello .......", "$\x00\x00\x10 interleaved frame first", "get / http/1.1\r\n\r\n",
			"options * RTSP/1.0\r\n\r\n", "describe rtsp://h/p RTSP/1.0\r\n\r\n", "\x00\x00\x00\x00\x00\x00\x00\x00\x00\x00\x00\x00\x00\x00\x00\x00\x00",
			"SSH-2.0-OpenSSH_8.4\r\n..........", " GET / HTTP/1.1\r\n\r\n", "\r\nGET / HTTP/1.1\r\n\r\n", "XDESCRIBE rtsp://h/p RTSP/1.0\r\n\r\n",
			"RTSP/1.0 200 OK\r\nCSeq: 1\r\n\r\n", "HTTP/1.1 200 OK\r\n\r\n.....",
		}).Draw(t, "garbage")
		extra := rapid.SliceOfN(rapid.Byte(), 0, 40).Draw(t, "garbageTail")
		return firstLine{g + string(extra), "closed", "garbage"}
	}
}

func segments(t *rapid.T, n int) []int {
	// how the client splits its writes: 1 byte … whole
	var out []int
	left := n
	mode := rapid.IntRange(0, 3).Draw(t, "segMode")
	for left > 0 {
		var k int
		switch mode {
		case 0:
			k = left
		case 1:
			k = rapid.IntRange(1, 3).Draw(t, "seg")
		case 2:
			k = rapid.IntRange(1, 20).Draw(t, "seg")
		default:
			k = rapid.IntRange(1, 70000).Draw(t, "seg")
		}
		if k > left {
			k = left
		}
		// after the first 40 bytes 1-byte dribbling only costs time
		if len(out) > 60 {
			k = left
		}
		out = append(out, k)
		left -= k
	}
	return out
}

type caseDesc struct {
	Kind     string `json:"kind"`
	Line     string `json:"first_line"`
	Want     string `json:"want"`
	Payload  int    `json:"payload_len"`
	Segs     []int  `json:"first_write_segments"`
	ReadSize []int  `json:"stub_read_sizes"`
	Got      string `json:"got_service"`
	GotLen   int    `json:"got_len"`
	FirstBad int    `json:"first_differing_offset"`
}

func runConn(t evid.TB, m *mux, data []byte, segs []int, halfClose bool, wait time.Duration) (*received, string, error) {
	c, err := net.Dial("tcp", m.addr)
	if err != nil {
		t.Fatalf("dial: %v (machinery)", err)
	}
	defer c.Close()
	c.(*net.TCPConn).SetNoDelay(true)
	key := c.LocalAddr().String()
	ch := make(chan struct{})
	m.mu.Lock()
	m.done[key] = ch
	m.mu.Unlock()
	defer func() { m.mu.Lock(); delete(m.done, key); m.mu.Unlock() }()
	off := 0
	var werr error
	for _, k := range segs {
		if _, werr = c.Write(data[off : off+k]); werr != nil {
			break // the server closed on us (expected for unmatched connections)
		}
		off += k
	}
	if halfClose && werr == nil {
		c.(*net.TCPConn).CloseWrite()
	}
	// wait until the server side is done with us: it either replies with one byte or closes
	c.SetReadDeadline(time.Now().Add(wait))
	reply, rerr := io.ReadAll(c)
	_ = rerr
	select {
	case <-ch:
	default:
	}
	return m.take(key), string(reply), rerr
}

func TestMuxRouting(t *testing.T) {
	evid.Rule("rapid: first line from the grammar {RTSP method | HTTP method | OPTIONS} x target x version, or a non-request prefix; payload 0..200 KiB; client write segmentation (whole / 1-3 byte / 1-20 byte / large pieces, TCP_NODELAY); stub read-buffer sizes 1..4096. Oracle: reference classification from the property statement; exactly one stub receives the connection; the bytes it reads equal the client's bytes from the first one; unmatched connections are closed and reach no stub. Non-trivial = first client segment shorter than the sniff depth (15 bytes) and the stub's first read smaller than what was sniffed; distinct = distinct (line, segmentation, read sizes, payload length)")
	long := newMux(t, 20*time.Second)
	defer long.l.Close()
	evid.Checks(1500, 8000)
	rapid.Check(t, func(t *rapid.T) {
		fl := genFirstLine(t)
		var payload []byte
		switch rapid.IntRange(0, 4).Draw(t, "payloadKind") {
		case 0:
		case 1, 2:
			payload = rapid.SliceOfN(rapid.Byte(), 1, 300).Draw(t, "payload")
		case 3:
			n := rapid.IntRange(1000, 20000).Draw(t, "payloadLen")
			seed := rapid.Byte().Draw(t, "payloadSeed")
			payload = make([]byte, n)
			for i := range payload {
				payload[i] = byte(i*7) ^ seed ^ byte(i>>8)
			}
		default:
			n := rapid.IntRange(60000, 200*1024).Draw(t, "payloadLen")
			seed := rapid.Byte().Draw(t, "payloadSeed")
			payload = make([]byte, n)
			for i := range payload {
				payload[i] = byte(i*13) ^ seed ^ byte(i>>9)
			}
		}
		data := append([]byte(fl.Text), payload...)
		segs := segments(t, len(data))
		rs := rapid.SliceOfN(rapid.SampledFrom([]int{1, 2, 3, 5, 7, 14, 15, 16, 64, 1024, 4096}), 1, 4).Draw(t, "readSizes")
		cf := rapid.SampledFrom([]int{0, 0, 0, 1, 2, 3}).Draw(t, "ioCopyFromRead")
		long.mu.Lock()
		long.readSize = rs
		long.copyFrom = cf
		long.mu.Unlock()
		if cf > 0 {
			evid.Class(fmt.Sprintf("service takes the connection with io.Copy after %d plain reads", cf-1))
		}

		rec, reply, _ := runConn(t, long, data, segs, true, 30*time.Second)
		evid.Eval(1)
		evid.Class("want " + fl.Want + " (" + fl.Kind + ")")
		cd := caseDesc{Kind: fl.Kind, Line: fl.Text, Want: fl.Want, Payload: len(payload), ReadSize: rs, FirstBad: -1}
		if len(segs) > 12 {
			cd.Segs = segs[:12]
		} else {
			cd.Segs = segs
		}
		if rec != nil {
			cd.Got, cd.GotLen = rec.service, len(rec.data)
		} else {
			cd.Got = "closed"
		}
		if cd.Got != fl.Want {
			evid.Violation(t, "routing", cd, "first line %q: reached %q, reference says %q (reply %q)", fl.Text, cd.Got, fl.Want, reply)
		}
		if rec != nil {
			if !bytes.Equal(rec.data, data) {
				n := len(rec.data)
				if len(data) < n {
					n = len(data)
				}
				cd.FirstBad = n
				for i := 0; i < n; i++ {
					if rec.data[i] != data[i] {
						cd.FirstBad = i
						break
					}
				}
				evid.Violation(t, "bytes", cd, "service %s read %d bytes, client wrote %d; first difference at offset %d", rec.service, len(rec.data), len(data), cd.FirstBad)
			}
			if reply != rec.service[:1] {
				evid.Violation(t, "reply", cd, "client got reply %q from the server side, service was %q", reply, rec.service)
			}
			if segs[0] < 15 && len(rec.reads) > 0 && rec.reads[0] < 15 {
				evid.Nontrivial(evid.FP(fl.Text, fmt.Sprint(cd.Segs), fmt.Sprint(rs), len(payload)))
				evid.Class("non-trivial: short first segment and short first stub read")
				evid.Sample("nontrivial", cd)
			}
		} else {
			if reply != "" {
				evid.Violation(t, "closed-but-replied", cd, "unmatched connection got reply %q", reply)
			}
			evid.Nontrivial(evid.FP(fl.Text, fmt.Sprint(cd.Segs)))
			evid.Sample("closed", cd)
		}
	})
}

// Silent and stalled connections: closed after the sniff timeout, never handed
// to a service. A short timeout is used only here, where the expected outcome is
// "closed" whatever the machine load.
func TestMuxSilence(t *testing.T) {
	short := newMux(t, 60*time.Millisecond)
	defer short.l.Close()
	evid.Checks(60, 400)
	rapid.Check(t, func(t *rapid.T) {
		// nothing at all, or a strict prefix (shorter than the sniff depth) of a valid request line
		full := rapid.SampledFrom([]string{"", "DESCRIBE rtsp://h/p RTSP/1.0", "OPTIONS * RTSP/1.0", "GET / HTTP/1.1", "SET_PARAMETER rtsp://h/p RTSP/1.0", "OPTIONS rtsp://h"}).Draw(t, "line")
		k := 0
		if full != "" {
			k = rapid.IntRange(0, 2).Draw(t, "prefixLen") // shorter than every method name, so nothing can be identified yet
			if k > len(full) {
				k = len(full)
			}
		}
		data := []byte(full[:k])
		segs := []int{}
		if k > 0 {
			segs = []int{k}
		}
		start := time.Now()
		rec, reply, _ := runConn(t, short, data, segs, false, 10*time.Second)
		evid.Eval(1)
		el := time.Since(start)
		cd := caseDesc{Kind: "silent", Line: string(data), Want: "closed"}
		if rec != nil || reply != "" {
			cd.Got = "service"
			if rec != nil {
				cd.Got = rec.service
			}
			evid.Violation(t, "silent-routed", cd, "a connection that sent only %q was handed to %q", data, cd.Got)
		}
		if el > 9*time.Second {
			evid.Violation(t, "silent-not-closed", cd, "a connection that sent only %q was still open after %v (sniff timeout 60ms)", data, el)
		}
		evid.Class(fmt.Sprintf("silent: %d bytes then nothing", k))
		evid.Nontrivial(evid.FP("silent", string(data)))
		evid.Sample("silent", cd)
	})
}

// Several connections at once, their sniff phases overlapping (first lines sent
// in two segments with other clients connecting in between), after earlier
// connections were served and closed: every connection must still reach exactly
// one service with its OWN bytes. Free-running (the listener has no schedule
// points): generated cases, OS-chosen interleavings.
func TestMuxConcurrentConnections(t *testing.T) {
	m := newMux(t, 20*time.Second)
	defer m.l.Close()
	m.mu.Lock()
	m.readSize = []int{5, 64, 1024}
	m.mu.Unlock()
	evid.Checks(40, 600)
	rapid.Check(t, func(t *rapid.T) {
		n := rapid.IntRange(2, 8).Draw(t, "clients")
		type cl struct {
			fl    firstLine
			data  []byte
			split int
			rec   *received
			reply string
		}
		cls := make([]*cl, n)
		for i := range cls {
			fl := genFirstLine(t)
			payload := rapid.SliceOfN(rapid.Byte(), 0, 400).Draw(t, "payload")
			// every client's bytes carry its index so that a mix-up is visible even between equal first lines
			data := append([]byte(fl.Text), []byte(fmt.Sprintf("#client-%d#", i))...)
			data = append(data, payload...)
			cls[i] = &cl{fl: fl, data: data, split: rapid.IntRange(1, 15).Draw(t, "firstSegment")}
		}
		var wg sync.WaitGroup
		start := make(chan struct{})
		for _, c := range cls {
			wg.Add(1)
			go func(c *cl) {
				defer wg.Done()
				<-start
				sp := c.split
				if sp > len(c.data) {
					sp = len(c.data)
				}
				segs := []int{sp}
				if len(c.data) > sp {
					segs = append(segs, len(c.data)-sp)
				}
				c.rec, c.reply, _ = runConn(t, m, c.data, segs, true, 30*time.Second)
			}(c)
		}
		close(start)
		wg.Wait()
		evid.Eval(int64(n))
		for i, c := range cls {
			cd := caseDesc{Kind: "concurrent:" + c.fl.Kind, Line: c.fl.Text, Want: c.fl.Want, Payload: len(c.data), Segs: []int{c.split}, FirstBad: -1}
			got := "closed"
			if c.rec != nil {
				got = c.rec.service
			}
			cd.Got = got
			if got != c.fl.Want {
				evid.Violation(t, "concurrent-routing", cd, "client %d of %d concurrent ones (first line %q): reached %q, reference says %q", i, n, c.fl.Text, got, c.fl.Want)
			}
			if c.rec != nil && !bytes.Equal(c.rec.data, c.data) {
				cd.GotLen = len(c.rec.data)
				evid.Violation(t, "concurrent-bytes", cd, "client %d of %d concurrent ones: service %s read %q…, the client wrote %q…", i, n, got, trunc(c.rec.data), trunc(c.data))
			}
		}
		evid.Class(fmt.Sprintf("%d concurrent connections", n))
		evid.Nontrivial(evid.FP("concurrent", n, fmt.Sprint(cls[0].fl.Text, cls[0].split, cls[n-1].fl.Text)))
	})
}

func trunc(b []byte) string {
	if len(b) > 70 {
		b = b[:70]
	}
	return string(b)
}

// A slow client: its first segment already identifies the protocol (a complete
// method and the start of the target) but is shorter than the sniff depth, and
// the rest only follows after the sniff timeout. The statement lets such a
// connection be closed as silent; but IF it is handed to a service, it must be
// the right one and that service must still read the whole original stream.
func TestMuxSlowSecondSegment(t *testing.T) {
	short := newMux(t, 60*time.Millisecond)
	defer short.l.Close()
	short.mu.Lock()
	short.readSize = []int{4096}
	short.mu.Unlock()
	evid.Checks(40, 400)
	rapid.Check(t, func(t *rapid.T) {
		c := rapid.SampledFrom([]struct{ line, want string }{
			{"GET /live/cam1.flv HTTP/1.1\r\nHost: h\r\n\r\n", "http"},
			{"POST /api/v1/login HTTP/1.1\r\nHost: h\r\n\r\n", "http"},
			{"DESCRIBE rtsp://h/live/cam1 RTSP/1.0\r\nCSeq: 1\r\n\r\n", "rtsp"},
			{"SETUP rtsp://h/live/cam1/streamid=0 RTSP/1.0\r\nCSeq: 2\r\n\r\n", "rtsp"},
			{"GET_PARAMETER rtsp://h/x RTSP/1.0\r\nCSeq: 3\r\n\r\n", "rtsp"},
		}).Draw(t, "request")
		line := strings.NewReplacer("\\r", "\r", "\\n", "\n").Replace(c.line)
		first := rapid.IntRange(len(strings.SplitN(line, " ", 2)[0])+1, 14).Draw(t, "firstSegment")
		pause := time.Duration(rapid.IntRange(120, 300).Draw(t, "pauseMs")) * time.Millisecond
		conn, err := net.Dial("tcp", short.addr)
		if err != nil {
			t.Fatalf("dial: %v", err)
		}
		defer conn.Close()
		key := conn.LocalAddr().String()
		conn.Write([]byte(line[:first]))
		time.Sleep(pause) // the client is slow; nothing is judged by this duration
		_, werr := conn.Write([]byte(line[first:]))
		if werr == nil {
			conn.(*net.TCPConn).CloseWrite()
		}
		conn.SetReadDeadline(time.Now().Add(10 * time.Second))
		reply, _ := io.ReadAll(conn)
		rec := short.take(key)
		evid.Eval(1)
		cd := caseDesc{Kind: "slow-second-segment", Line: line, Want: c.want + " or closed", Segs: []int{first}}
		if rec == nil {
			evid.Class("slow client: closed as silent")
			return
		}
		cd.Got, cd.GotLen = rec.service, len(rec.data)
		if rec.service != c.want {
			evid.Violation(t, "slow-routing", cd, "slow client with first segment %q: handed to %q, its request line is %s", line[:first], rec.service, c.want)
		}
		if string(rec.data) != line {
			evid.Violation(t, "slow-bytes", cd, "slow client with first segment %q was handed to %s, which read only %q of %q (reply %q)", line[:first], rec.service, trunc(rec.data), trunc([]byte(line)), reply)
		}
		evid.Class("slow client: handed to the right service with its whole stream")
		evid.Nontrivial(evid.FP("slow", line, first))
	})
}
