package c19

import (
	"bytes"
	"crypto/ecdsa"
	"crypto/elliptic"
	"crypto/rand"
	"crypto/tls"
	"crypto/x509"
	"crypto/x509/pkix"
	"fmt"
	"io"
	"math/big"
	"net"
	"testing"
	"time"

	"pgregory.net/rapid"
	"verif/harness/lib/evid"
)

// The server's TLS port is the same multiplexer behind a certificate: the
// statement holds for "every connection accepted on the shared port", so the
// routing, byte-fidelity and silence clauses are exercised through TLS as well.
// What a TLS client can do before its first request byte is richer than on the
// plain port: it can stay silent before the handshake, stop in the middle of its
// ClientHello, finish the handshake and then stay silent, or speak plain text to
// the TLS port. All of those must end closed (past the sniff timeout) and reach
// no service; a client that handshakes and sends a request line is routed by that
// line and the service reads exactly the client's plaintext.

func selfSigned(t testing.TB) *tls.Config {
	key, err := ecdsa.GenerateKey(elliptic.P256(), rand.Reader)
	if err != nil {
		t.Fatalf("machinery: key: %v", err)
	}
	tmpl := &x509.Certificate{SerialNumber: big.NewInt(1), Subject: pkix.Name{CommonName: "verif"}, NotBefore: time.Now().Add(-time.Hour),
		NotAfter: time.Now().Add(24 * time.Hour), KeyUsage: x509.KeyUsageDigitalSignature, ExtKeyUsage: []x509.ExtKeyUsage{x509.ExtKeyUsageServerAuth},
		IPAddresses: []net.IP{net.ParseIP("127.0.0.1")}}
	der, err := x509.CreateCertificate(rand.Reader, tmpl, tmpl, &key.PublicKey, key)
	if err != nil {
		t.Fatalf("machinery: certificate: %v", err)
	}
	return &tls.Config{Certificates: []tls.Certificate{{Certificate: [][]byte{der}, PrivateKey: key}}}
}

// clientHello returns the bytes a TLS client sends first (captured from a real
// tls.Client against a sink).
func clientHello(t testing.TB) []byte {
	a, b := net.Pipe()
	defer a.Close()
	defer b.Close()
	go func() {
		c := tls.Client(a, &tls.Config{InsecureSkipVerify: true})
		c.SetDeadline(time.Now().Add(2 * time.Second))
		c.Handshake()
	}()
	buf := make([]byte, 4096)
	b.SetReadDeadline(time.Now().Add(2 * time.Second))
	n, _ := io.ReadAtLeast(b, buf, 5)
	if n < 5 {
		t.Fatalf("machinery: no ClientHello captured")
	}
	need := 5 + int(buf[3])<<8 + int(buf[4])
	for n < need {
		k, err := b.Read(buf[n:])
		if err != nil {
			break
		}
		n += k
	}
	return buf[:n]
}

func TestMuxTLS(t *testing.T) {
	conf := selfSigned(t)
	long := newMuxTLS(t, 20*time.Second, conf)
	defer long.l.Close()
	short := newMuxTLS(t, 80*time.Millisecond, conf)
	defer short.l.Close()
	hello := clientHello(t)
	evid.Checks(120, 1500)
	rapid.Check(t, func(t *rapid.T) {
		evid.Eval(1)
		kind := rapid.SampledFrom([]string{"request", "request", "silent-before-handshake", "partial-hello", "silent-after-handshake", "plaintext"}).Draw(t, "kind")
		m := short
		if kind == "request" {
			m = long
		}
		raw, err := net.Dial("tcp", m.addr)
		if err != nil {
			t.Fatalf("dial: %v (machinery)", err)
		}
		defer raw.Close()
		raw.(*net.TCPConn).SetNoDelay(true)
		key := raw.LocalAddr().String()
		ch := make(chan struct{})
		m.mu.Lock()
		m.done[key] = ch
		m.mu.Unlock()
		defer func() { m.mu.Lock(); delete(m.done, key); m.mu.Unlock() }()
		start := time.Now()
		closedWithin := func(c net.Conn, what string) {
			c.SetReadDeadline(time.Now().Add(10 * time.Second))
			b, _ := io.ReadAll(c)
			el := time.Since(start)
			rec := m.take(key)
			cd := caseDesc{Kind: "tls " + kind, Line: what, Want: "closed"}
			if rec != nil {
				cd.Got = rec.service
				evid.Violation(t, "tls-silent-routed", cd, "TLS port, %s: the connection was handed to service %q", what, rec.service)
			}
			if el > 9*time.Second {
				evid.Violation(t, "tls-silent-not-closed", cd, "TLS port, %s: still open after %v (sniff timeout 80ms)", what, el)
			}
			_ = b
			evid.Class("tls: " + kind)
			evid.Nontrivial(evid.FP("tls", kind, what))
			evid.Sample("tls-closed", cd)
		}
		switch kind {
		case "silent-before-handshake":
			closedWithin(raw, "a client that connects and sends nothing")
		case "partial-hello":
			k := rapid.IntRange(1, len(hello)-1).Draw(t, "helloBytes")
			raw.Write(hello[:k])
			closedWithin(raw, fmt.Sprintf("a client that sends %d of the %d bytes of its ClientHello and stalls", k, len(hello)))
		case "plaintext":
			line := rapid.SampledFrom([]string{"GET / HTTP/1.1\r\n\r\n", "OPTIONS * RTSP/1.0\r\nCSeq: 1\r\n\r\n", "DESCRIBE rtsp://h/p RTSP/1.0\r\n\r\n"}).Draw(t, "line")
			raw.Write([]byte(line))
			closedWithin(raw, fmt.Sprintf("a client that speaks plain text (%q) to the TLS port", line[:14]))
		case "silent-after-handshake":
			c := tls.Client(raw, &tls.Config{InsecureSkipVerify: true})
			c.SetDeadline(time.Now().Add(10 * time.Second))
			if err := c.Handshake(); err != nil {
				t.Fatalf("machinery: TLS handshake with the unchanged listener failed: %v", err)
			}
			full := rapid.SampledFrom([]string{"", "DESCRIBE rtsp://h/p RTSP/1.0", "GET / HTTP/1.1"}).Draw(t, "line")
			k := 0
			if full != "" {
				k = rapid.IntRange(0, 2).Draw(t, "prefixLen")
			}
			if k > 0 {
				c.Write([]byte(full[:k]))
			}
			closedWithin(c, fmt.Sprintf("a client that completes the handshake, sends %q and stalls", full[:k]))
		default:
			fl := genFirstLine(t)
			n := rapid.SampledFrom([]int{0, 1, 200, 5000, 40000}).Draw(t, "payloadLen")
			seed := rapid.Byte().Draw(t, "payloadSeed")
			payload := make([]byte, n)
			for i := range payload {
				payload[i] = byte(i*11) ^ seed ^ byte(i>>8)
			}
			data := append([]byte(fl.Text), payload...)
			segs := segments(t, len(data))
			rs := rapid.SliceOfN(rapid.SampledFrom([]int{1, 3, 7, 15, 16, 64, 4096}), 1, 3).Draw(t, "readSizes")
			m.mu.Lock()
			m.readSize = rs
			m.mu.Unlock()
			c := tls.Client(raw, &tls.Config{InsecureSkipVerify: true})
			c.SetDeadline(time.Now().Add(30 * time.Second))
			if err := c.Handshake(); err != nil {
				t.Fatalf("machinery: TLS handshake with the unchanged listener failed: %v", err)
			}
			off := 0
			var werr error
			for _, k := range segs {
				if _, werr = c.Write(data[off : off+k]); werr != nil {
					break
				}
				off += k
			}
			if werr == nil {
				c.CloseWrite()
			}
			reply, _ := io.ReadAll(c)
			select {
			case <-ch:
			default:
			}
			rec := m.take(key)
			cd := caseDesc{Kind: "tls " + fl.Kind, Line: fl.Text, Want: fl.Want, Payload: len(payload), ReadSize: rs, FirstBad: -1}
			if len(segs) > 12 {
				cd.Segs = segs[:12]
			} else {
				cd.Segs = segs
			}
			cd.Got = "closed"
			if rec != nil {
				cd.Got, cd.GotLen = rec.service, len(rec.data)
			}
			if cd.Got != fl.Want {
				evid.Violation(t, "tls-routing", cd, "TLS port, first line %q: reached %q, reference says %q (reply %q)", fl.Text, cd.Got, fl.Want, reply)
			}
			if rec != nil && !bytes.Equal(rec.data, data) {
				nn := len(rec.data)
				if len(data) < nn {
					nn = len(data)
				}
				cd.FirstBad = nn
				for i := 0; i < nn; i++ {
					if rec.data[i] != data[i] {
						cd.FirstBad = i
						break
					}
				}
				evid.Violation(t, "tls-bytes", cd, "TLS port: service %s read %d bytes, client wrote %d; first difference at offset %d", rec.service, len(rec.data), len(data), cd.FirstBad)
			}
			evid.Class("tls: request, want " + fl.Want)
			if segs[0] < 15 {
				evid.Nontrivial(evid.FP("tls", fl.Text, fmt.Sprint(cd.Segs), fmt.Sprint(rs), n))
			}
		}
	})
}
