// C02 — late joiners start with the most recent parameter sets and the current
// GOP, contiguous with live.
//
// A generated frame sequence is packetised in every legal way and published; a
// recording consumer joins at EVERY prefix length (one consumer per position).
// The oracle is a reference cache model computed from what the sender knows
// about each packet (never from ipchub's classifiers):
//   - the received list is  prelude ++ body ++ live;
//   - live = exactly the packets published after the join, every channel, in order
//     (no gap, no repeat at the seam);
//   - body (cache_gop on) = the video packets from the first packet that carries
//     key-picture slice data of the most recent key frame onward, in order, each
//     once (parameter-set-only packets in that range may be left out of the body);
//   - prelude = only packets that carry parameter sets; for every parameter-set
//     type seen so far, the last packet in prelude+body that carries it is the
//     most recent such packet published.
//
// Window variants put the join inside the publisher's cache-then-broadcast
// window and a publish inside the join's snapshot-then-register window.
// The FLV variant drives the real demuxer → FLV muxer and judges the tag list an
// FLV joiner gets against the tags a from-the-start consumer saw.
package c02

import (
	"bytes"
	"encoding/json"
	"fmt"
	"io"
	"os"
	"sync"
	"testing"
	"time"

	"github.com/cnotch/ipchub/av/format/flv"
	"github.com/cnotch/ipchub/av/format/rtp"
	"github.com/cnotch/ipchub/config"
	"github.com/cnotch/ipchub/media"
	"pgregory.net/rapid"
	"verif/harness/lib/evid"
	"verif/harness/lib/mediah"
	"verif/harness/lib/rtppack"
	"verif/harness/lib/rtppack/esgen"
	"verif/harness/lib/sched"
)

func TestMain(m *testing.M) { evid.Main(m, "C02") }

const bound = 10 * time.Second

type plan struct {
	Codec    string   `json:"codec"`
	CacheGop bool     `json:"cache_gop"`
	Audio    bool     `json:"audio"`
	Packets  []string `json:"packets"`
	Joins    []int    `json:"join_after_n_packets"`
	Windows  []window `json:"windows,omitempty"`

	cdc  esgen.Codec
	pubs []*mediah.Pub
}

type window struct {
	Point string `json:"point"`
	Occ   int    `json:"occurrence"`
	Do    string `json:"do"` // join | publish
}

func genPlan(t *rapid.T) *plan {
	pl := &plan{cdc: esgen.H264}
	if rapid.Bool().Draw(t, "h265") {
		pl.cdc = esgen.H265
	}
	pl.Codec = pl.cdc.String()
	pl.CacheGop = rapid.IntRange(0, 3).Draw(t, "cacheGop") != 0
	pl.Audio = rapid.IntRange(0, 3).Draw(t, "audio") == 0
	cfg := esgen.Config{Codec: pl.cdc, MaxNAL: 2500, Tags: true, RealParamSets: true, MaxAUs: 12, MaxGOP: 5, MaxUnits: 36}
	aus := cfg.DrawSequence(t)
	mediah.PadTinySlices(pl.cdc, aus)
	// listed finding "fragmented-parameter-set": a parameter set sent as FU fragments
	// is cached by its first fragment only. While it is listed the class is excluded
	// by construction (parameter sets stay whole) and counted.
	whole := evid.Known("fragmented-parameter-set")
	if whole {
		evid.Excluded("fragmented-parameter-set")
	}
	vs := esgen.Packetise(t, pl.cdc, aus, esgen.PackConfig{MaxPacket: 1400, MaxFrags: 5, WholeParamSets: whole})
	video := mediah.FromVideoStream(vs)
	var audio []*mediah.Pub
	if pl.Audio {
		ac := esgen.AacConfig{MaxAUs: 5, MaxAUSize: 300, Tags: true}
		audio = mediah.FromAudioStream(esgen.PacketiseAac(t, ac, ac.DrawAacAUs(t), esgen.PackConfig{}))
	}
	vi, ai := 0, 0
	for vi < len(video) || ai < len(audio) {
		if ai < len(audio) && (vi >= len(video) || rapid.IntRange(0, 4).Draw(t, "src") == 0) {
			pl.pubs = append(pl.pubs, audio[ai])
			ai++
		} else {
			pl.pubs = append(pl.pubs, video[vi])
			vi++
		}
	}
	if len(pl.pubs) > 70 {
		pl.pubs = pl.pubs[:70]
	}
	for i, p := range pl.pubs {
		p.Index = i
		pl.Packets = append(pl.Packets, fmt.Sprintf("%d:ch%d %s ts=%d", i, p.Channel, p.Desc, p.TS))
	}
	return pl
}

// Witness of the listed finding "fragmented-parameter-set": an SPS sent as two
// FU-A fragments, then PPS and an IDR; a joiner must be handed both fragments.
func TestWitnessFragmentedParameterSet(t *testing.T) {
	config.VerifSet(":0", false, true, "", 5)
	s := media.NewStream("/c02/witness", mediah.SDP(esgen.H264, false))
	defer s.Close()
	mk := func(seq uint16, ts uint32, marker bool, payload []byte) *rtp.Packet {
		return rtppack.ToIpchub(rtp.ChannelVideo, rtppack.Pkt{PT: 96, Seq: seq, TS: ts, SSRC: 7, Marker: marker, Payload: payload}.Marshal())
	}
	frags := rtppack.H264FuA(esgen.RealH264SPS, 10)
	var pk []*rtp.Packet
	for i, f := range frags {
		pk = append(pk, mk(uint16(i), 1000, false, f))
	}
	pk = append(pk, mk(100, 1000, false, rtppack.H264Single(esgen.RealH264PPS)))
	pk = append(pk, mk(101, 1000, true, rtppack.H264Single([]byte{0x65, 1, 2, 3, 4, 5})))
	for _, p := range pk {
		s.WriteRtpPacket(p)
	}
	rec := mediah.NewRec("w")
	s.StartConsume(rec, media.RTPPacket, "w")
	mediah.WaitFor(2*time.Second, func() bool { return rec.Len() >= len(pk) })
	got := rec.Got()
	have := map[interface{}]bool{}
	for _, g := range got {
		have[g] = true
	}
	missing := 0
	for i := range frags {
		if !have[pk[i]] {
			missing++
		}
	}
	evid.Eval(1)
	if missing > 0 {
		if evid.Known("fragmented-parameter-set") {
			evid.Hit("fragmented-parameter-set")
			return
		}
		evid.Violation(t, "fragmented-parameter-set", map[string]any{"fragments": len(frags), "missing": missing}, "an SPS sent as %d FU-A fragments: a late joiner is handed only %d of them", len(frags), len(frags)-missing)
	}
}

// reference cache model -------------------------------------------------------

type expect struct {
	body      []int        // required body, in order (non parameter-set-only video packets from the key start)
	gopFrom   int          // index of the key start (-1 none / cache off)
	lastPS    map[byte]int // parameter-set type -> most recent carrier among the first k packets
	insideGop bool         // >=1 non-key packet already cached behind the key start
}

func model(pl *plan, k int) expect {
	e := expect{gopFrom: -1, lastPS: map[byte]int{}}
	for i := 0; i < k; i++ {
		p := pl.pubs[i]
		if p.Channel != rtp.ChannelVideo {
			continue
		}
		for typ := range p.CarriesPS {
			e.lastPS[typ] = i
		}
		if p.KeyStart {
			e.gopFrom = i
		}
	}
	if !pl.CacheGop {
		e.gopFrom = -1
	}
	if e.gopFrom >= 0 {
		for i := e.gopFrom; i < k; i++ {
			p := pl.pubs[i]
			if p.Channel != rtp.ChannelVideo {
				continue
			}
			if len(p.CarriesPS) > 0 && !p.CarriesVCL {
				continue // parameter-set-only: may be kept out of the body
			}
			e.body = append(e.body, i)
			if i > e.gopFrom && !p.AnyKeyData {
				e.insideGop = true
			}
		}
	}
	return e
}

type verdictCase struct {
	Plan     *plan `json:"plan"`
	JoinAt   int   `json:"cached_before_join"`
	Received []int `json:"received"`
	WantBody []int `json:"reference_body"`
	WantLive []int `json:"reference_live"`
}

// judgeJoin checks one joiner. k = number of packets cached before its snapshot.
func judgeJoin(t evid.TB, pl *plan, k int, got []int, liveWant []int) {
	vc := verdictCase{Plan: pl, JoinAt: k, Received: got, WantLive: liveWant}
	e := model(pl, k)
	vc.WantBody = e.body
	// live tail
	if len(got) < len(liveWant) {
		evid.Violation(t, "live-gap", vc, "joiner after %d packets: received %v, but the live part must be %v", k, ab(got), ab(liveWant))
	}
	split := len(got) - len(liveWant)
	for i, w := range liveWant {
		if got[split+i] != w {
			evid.Violation(t, "seam", vc, "joiner after %d packets: received %v; the packets published after the join are %v and must follow the replay with no gap and no repeat", k, ab(got), ab(liveWant))
		}
	}
	s := got[:split]
	for _, i := range s {
		if i >= k {
			evid.Violation(t, "seam-repeat", vc, "joiner after %d packets: packet %d is delivered both before and within the live part: %v", k, i, ab(got))
		}
		if pl.pubs[i].Channel != rtp.ChannelVideo {
			// non-video packets in the replay are permitted but must not be out of place; ipchub never replays them
			continue
		}
	}
	// body = longest strictly increasing suffix of s inside [gopFrom, k)
	x := len(s)
	if e.gopFrom >= 0 {
		for x > 0 && s[x-1] >= e.gopFrom && (x == len(s) || s[x-1] < s[x]) {
			x--
		}
	}
	bodyGot := s[x:]
	prelude := s[:x]
	// every required body packet present (order is implied by increasing indices)
	bi := 0
	for _, i := range bodyGot {
		if bi < len(e.body) && e.body[bi] == i {
			bi++
		} else if p := pl.pubs[i]; !(p.Channel == rtp.ChannelVideo && len(p.CarriesPS) > 0 && !p.CarriesVCL) && p.Channel == rtp.ChannelVideo {
			evid.Violation(t, "body-extra", vc, "joiner after %d packets: replayed body %v contains packet %d which is not part of the current GOP %v", k, ab(bodyGot), i, ab(e.body))
		}
	}
	if bi != len(e.body) {
		evid.Violation(t, "body", vc, "joiner after %d packets (cache_gop=%v): replay %v (prelude %v, body %v) but the current GOP is %v [%s …]", k, pl.CacheGop, ab(s), ab(prelude), ab(bodyGot), ab(e.body), descr(pl, e.body))
	}
	for _, i := range prelude {
		p := pl.pubs[i]
		if p.Channel == rtp.ChannelVideo && len(p.CarriesPS) == 0 {
			evid.Violation(t, "prelude", vc, "joiner after %d packets: packet %d (%s) is replayed ahead of the GOP %v but carries no parameter set: %v", k, i, p.Desc, ab(e.body), ab(s))
		}
	}
	// most recent parameter sets
	for typ, want := range e.lastPS {
		last := -1
		for _, i := range s {
			if pl.pubs[i].Channel == rtp.ChannelVideo && pl.pubs[i].CarriesPS[typ] {
				last = i
			}
		}
		if last != want {
			evid.Violation(t, "parameter-set", vc, "joiner after %d packets: the most recent packet carrying parameter set type %d is %d (%s); the replay %v ends with carrier %d", k, typ, want, pl.pubs[want].Desc, ab(s), last)
		}
	}
}

// ab abbreviates a long index list for a message (the replay file has it in full).
func ab(l []int) string {
	if len(l) <= 40 {
		return fmt.Sprint(l)
	}
	gap := ""
	for i := 1; i < len(l); i++ {
		if l[i] != l[i-1]+1 {
			gap = fmt.Sprintf(" first step that is not +1: %d -> %d at position %d;", l[i-1], l[i], i)
			break
		}
	}
	return fmt.Sprintf("[%d %d %d … %d %d %d] (%d entries;%s)", l[0], l[1], l[2], l[len(l)-3], l[len(l)-2], l[len(l)-1], len(l), gap)
}

func descr(pl *plan, idx []int) string {
	out := ""
	for n, i := range idx {
		if n >= 4 {
			break
		}
		out += pl.Packets[i] + "; "
	}
	return out
}

// execution ------------------------------------------------------------------

type joiner struct {
	rec *mediah.Rec
	cid media.CID
	obj interface{}
}

func run(t evid.TB, pl *plan, windows bool) {
	config.VerifSet(":0", false, pl.CacheGop, "", 5)
	s := media.NewStream("/c02/live", mediah.SDP(pl.cdc, pl.Audio))
	defer s.Close()
	tr := mediah.NewTracker(s)
	in := sched.New(15 * time.Millisecond)
	in.Tracing = func(p string) bool { return p == "publish.cached" || p == "join.snapshotted" || p == "join.registered" }
	var mu sync.Mutex
	var joiners []*joiner
	cursor := 0
	var pubMu sync.Mutex
	publish := func() {
		pubMu.Lock()
		defer pubMu.Unlock()
		if cursor >= len(pl.pubs) {
			return
		}
		p := pl.pubs[cursor]
		cursor++
		s.WriteRtpPacket(p.P)
	}
	join := func() {
		j := &joiner{rec: mediah.NewRec("j")}
		mu.Lock()
		joiners = append(joiners, j)
		mu.Unlock()
		j.cid = s.StartConsume(j.rec, media.RTPPacket, "j")
	}
	inWindow := 0
	if windows {
		for _, w := range pl.Windows {
			w := w
			d := &sched.Directive{Point: w.Point, Occ: w.Occ, Label: w.Do}
			if w.Do == "join" {
				d.Do = func() { inWindow++; join() }
			} else {
				d.Do = func() { inWindow++; publish() }
			}
			in.Add(d)
		}
	}
	media.VerifSetSched(func(p string, o interface{}) {
		tr.Observe(p, o)
		if st, ok := o.(*media.Stream); ok && st != s {
			return
		}
		if _, ok := media.VerifConsumptionCID(o); ok && !tr.Mine(o) {
			return
		}
		in.Hook(p, o)
	})
	defer media.VerifSetSched(nil)

	ji := 0
	for {
		for ji < len(pl.Joins) && pl.Joins[ji] <= cursor {
			join()
			ji++
			if !in.Wait(bound) {
				evid.Violation(t, "stuck", pl, "an operation started inside a window never finished")
			}
		}
		if cursor >= len(pl.pubs) {
			break
		}
		publish()
		if !in.Wait(bound) {
			evid.Violation(t, "stuck", pl, "an operation started inside a window never finished")
		}
		if cursor%200 == 0 {
			// pacing only (long logs): a publisher that outruns the recorders by 1000 packets
			// would make their backlog drop legitimately
			mu.Lock()
			var cs []media.CID
			for _, j := range joiners {
				cs = append(cs, j.cid)
			}
			mu.Unlock()
			tr.WaitIdle(s, cs, bound)
		}
	}
	var cids []media.CID
	for _, j := range joiners {
		cids = append(cids, j.cid)
	}
	if !tr.WaitIdle(s, cids, bound) {
		evid.Violation(t, "delivery-stuck", pl, "joiners did not drain within %v: %s", bound, tr.Describe(s, cids))
	}
	// linearisation: how many packets were cached before each joiner's snapshot
	trace := in.Trace()
	snapK := map[media.CID]int{}
	cached := 0
	for _, ev := range trace {
		switch ev.Point {
		case "publish.cached":
			cached++
		case "join.snapshotted":
			if cid, ok := media.VerifConsumptionCID(ev.Obj); ok {
				snapK[cid] = cached
			}
		}
	}
	pubIndex := map[interface{}]int{}
	for _, p := range pl.pubs {
		pubIndex[p.P] = p.Index
	}
	for _, j := range joiners {
		k, ok := snapK[j.cid]
		if !ok {
			evid.Violation(t, "no-snapshot", pl, "a joiner never reached its snapshot")
		}
		var got []int
		for _, g := range j.rec.Got() {
			idx, ok := pubIndex[g]
			if !ok {
				evid.Violation(t, "foreign", pl, "a joiner received an object that was never published")
			}
			got = append(got, idx)
		}
		var live []int
		for i := k; i < len(pl.pubs); i++ {
			live = append(live, i)
		}
		judgeJoin(t, pl, k, got, live)
		evid.Eval(1)
		e := model(pl, k)
		if e.insideGop && len(live) > 0 {
			label := "join inside a GOP with live packets after it"
			if windows && inWindow > 0 {
				label = "windows: " + label
			}
			evid.Class(label)
			evid.Nontrivial(evid.FP(fmt.Sprint(pl.Packets), pl.CacheGop, k, windows))
			if evid.WantSample(label) {
				evid.Sample(label, map[string]any{"codec": pl.Codec, "cache_gop": pl.CacheGop, "packets": pl.Packets, "cached_before_join": k, "received": got, "windows": pl.Windows})
			}
		}
	}
	if inWindow > 0 {
		evid.Class("an operation ran inside a window")
	}
	if in.Blocked > 0 {
		evid.Class("window operation blocked until the window closed")
	}
}

func TestLateJoinEveryPrefix(t *testing.T) {
	evid.Rule("rapid: frame sequences (H.264/H.265, GOP structure, in-band parameter sets, multi-slice pictures, AUD/SEI) x every legal packetisation (single, STAP-A/AP with any grouping incl. SPS+PPS+IDR in one aggregate, FU-A/FU) x cache_gop on/off; a recording consumer joins at EVERY prefix length; plus window directives (join inside the publisher's cache-then-broadcast window, publish inside a join's snapshot-then-register window); FLV variant through the real demuxer and FLV muxer. Oracle = reference cache model computed from the sender's own knowledge of each packet. Non-trivial = join strictly inside a GOP (>=1 non-key packet already cached) with >=1 live packet after the join; distinct = distinct (packets, cache_gop, join position)")
	evid.Checks(300, 5000)
	rapid.Check(t, func(t *rapid.T) {
		pl := genPlan(t)
		for k := 0; k <= len(pl.pubs); k++ {
			pl.Joins = append(pl.Joins, k)
		}
		run(t, pl, false)
	})
}

func TestLateJoinWindows(t *testing.T) {
	evid.Checks(300, 5000)
	rapid.Check(t, func(t *rapid.T) {
		pl := genPlan(t)
		n := rapid.IntRange(0, 3).Draw(t, "scriptedJoins")
		for i := 0; i < n; i++ {
			pl.Joins = append(pl.Joins, rapid.IntRange(0, len(pl.pubs)).Draw(t, "joinAt"))
		}
		sortInts(pl.Joins)
		nw := rapid.IntRange(1, 3).Draw(t, "windows")
		for i := 0; i < nw; i++ {
			if rapid.IntRange(0, 2).Draw(t, "kind") < 2 {
				pl.Windows = append(pl.Windows, window{Point: "publish.cached", Occ: rapid.IntRange(1, len(pl.pubs)).Draw(t, "occ"), Do: "join"})
			} else {
				pl.Windows = append(pl.Windows, window{Point: rapid.SampledFrom([]string{"join.snapshotted", "join.registered"}).Draw(t, "pt"), Occ: rapid.IntRange(1, 3).Draw(t, "occ"), Do: "publish"})
			}
		}
		run(t, pl, true)
	})
}

func sortInts(a []int) {
	for i := 1; i < len(a); i++ {
		for j := i; j > 0 && a[j] < a[j-1]; j-- {
			a[j], a[j-1] = a[j-1], a[j]
		}
	}
}

// ---------------------------------------------------------------- FLV variant

type flvKind int

const (
	flvOther flvKind = iota
	flvMeta
	flvVideoHeader
	flvAudioHeader
	flvKey
	flvMedia
)

// classify reads the tag bytes per the FLV specification (never through
// ipchub's Tag.Is… helpers).
func classify(tg *flv.Tag) flvKind {
	switch tg.TagType {
	case 18:
		return flvMeta
	case 9:
		if len(tg.Data) < 2 {
			return flvOther
		}
		if tg.Data[1] == 0 {
			return flvVideoHeader
		}
		if tg.Data[0]>>4 == 1 {
			return flvKey
		}
		return flvMedia
	case 8:
		if len(tg.Data) >= 2 && tg.Data[0]>>4 == 10 && tg.Data[1] == 0 {
			return flvAudioHeader
		}
		return flvMedia
	}
	return flvOther
}

// writerViewer consumes FLV tags the way service/flv does: through its own flv.Writer.
type writerViewer struct{ w *flv.Writer }

func (v *writerViewer) Consume(p media.Pack) { v.w.WriteFlvTag(p.(*flv.Tag)) }
func (v *writerViewer) Close() error         { return nil }

type flvCase struct {
	Codec     string   `json:"codec"`
	CacheGop  bool     `json:"cache_gop"`
	Audio     bool     `json:"audio"`
	Packets   []string `json:"packets"`
	PauseAt   int      `json:"join_after_n_packets"`
	NoSprop   bool     `json:"sdp_without_sprop,omitempty"`
	TagsSeen  []string `json:"tags_cached_before_join"`
	Joiner    []string `json:"joiner_received"`
	Reference []string `json:"reference"`
}

// inbandParameterSets puts the real parameter sets, one packet each, in front of
// the first video packet of the plan; with audioFirst the first audio packet is
// moved to the very front (audio order and video order stay as they were).
func inbandParameterSets(pl *plan, audioFirst bool) {
	fv := -1
	for i, p := range pl.pubs {
		if p.Channel == rtp.ChannelVideo {
			fv = i
			break
		}
	}
	if fv < 0 {
		return
	}
	first := pl.pubs[fv]
	sets := [][]byte{esgen.RealH264SPS, esgen.RealH264PPS}
	if pl.cdc == esgen.H265 {
		sets = [][]byte{esgen.RealH265VPS, esgen.RealH265SPS, esgen.RealH265PPS}
	}
	var ps []*mediah.Pub
	for i, nal := range sets {
		raw := rtppack.Pkt{PT: 96, Seq: first.P.SequenceNumber - uint16(len(sets)-i), TS: first.TS, SSRC: first.P.SSRC, Payload: nal}.Marshal()
		ps = append(ps, &mediah.Pub{P: rtppack.ToIpchub(rtp.ChannelVideo, raw), Channel: rtp.ChannelVideo, TS: first.TS,
			CarriesPS: map[byte]bool{pl.cdc.NalType(nal): true}, Desc: fmt.Sprintf("in-band parameter set type %d", pl.cdc.NalType(nal))})
	}
	var out []*mediah.Pub
	if audioFirst {
		for i, p := range pl.pubs {
			if p.Channel == rtp.ChannelAudio {
				out = append(out, p)
				pl.pubs = append(append([]*mediah.Pub{}, pl.pubs[:i]...), pl.pubs[i+1:]...)
				if i < fv {
					fv--
				}
				break
			}
		}
	}
	out = append(out, pl.pubs[:fv]...)
	out = append(out, ps...)
	out = append(out, pl.pubs[fv:]...)
	pl.pubs = out
	pl.Packets = nil
	for i, p := range pl.pubs {
		p.Index = i
		pl.Packets = append(pl.Packets, fmt.Sprintf("%d:ch%d %s ts=%d", i, p.Channel, p.Desc, p.TS))
	}
}

func tagStr(tg *flv.Tag) string {
	return fmt.Sprintf("%s@%d(%dB)", [...]string{"other", "meta", "vhdr", "ahdr", "key", "media"}[classify(tg)], tg.Timestamp, len(tg.Data))
}

func TestLateJoinFLV(t *testing.T) {
	evid.Checks(300, 4000)
	rapid.Check(t, func(t *rapid.T) {
		pl := genPlan(t)
		// a third of the cases: the SDP announces no parameter sets, they arrive in band
		// (whole, each in a packet of its own) ahead of the first video packet — and, with
		// audio, possibly after the first audio packets: the FLV converter then has audio
		// to convert before it can build the video sequence header
		noSprop := rapid.IntRange(0, 2).Draw(t, "sdpWithoutSprop") == 0
		audioFirst := false
		if noSprop {
			audioFirst = pl.Audio && rapid.Bool().Draw(t, "audioBeforeParameterSets")
			inbandParameterSets(pl, audioFirst)
		}
		config.VerifSet(":0", false, pl.CacheGop, "", 5)
		conv := mediah.WatchConverters()
		defer conv.Stop()
		s := media.NewStream("/c02/flv", mediah.SDPWith(pl.cdc, pl.Audio, !noSprop))
		defer s.Close()
		conv.Bind(s)
		tr := mediah.NewTracker(s)
		in := sched.New(15 * time.Millisecond)
		in.Tracing = func(p string) bool { return p == "flvpublish.cached" || p == "join.snapshotted" }
		media.VerifSetSched(func(p string, o interface{}) {
			tr.Observe(p, o)
			if st, ok := o.(*media.Stream); ok && st != s {
				return
			}
			if _, ok := media.VerifConsumptionCID(o); ok && !tr.Mine(o) {
				return
			}
			in.Hook(p, o)
		})
		defer media.VerifSetSched(nil)
		first := mediah.NewRec("first")
		first.Fingerprint = func(p media.Pack) uint64 {
			tg := p.(*flv.Tag)
			return evid.FP(tg.TagType, tg.Timestamp, tg.DataSize, tg.Data)
		}
		firstCID := s.StartConsume(first, media.FLVPacket, "first")
		// a viewer the way the HTTP-FLV / ws-flv handlers consume: every tag goes through an
		// flv.Writer of its own (which rebases timestamps for ITS client); it joins at a
		// generated point and must not disturb what other consumers are handed
		viewerAt := rapid.IntRange(0, len(pl.pubs)).Draw(t, "writerViewerJoinsAfter")
		viewer := &writerViewer{}
		viewerJoined := false
		joinViewer := func(published int) {
			if !viewerJoined && published >= viewerAt {
				viewerJoined = true
				w, _ := flv.NewWriter(io.Discard, s.FlvTypeFlags())
				viewer.w = w
				s.StartConsume(viewer, media.FLVPacket, "writer-viewer")
			}
		}
		if firstCID == 0 {
			t.Fatalf("FLV consumption not supported for this stream (harness SDP problem)")
		}
		pause := rapid.IntRange(0, len(pl.pubs)).Draw(t, "joinAfter")
		mode := rapid.SampledFrom([]string{"sequential", "join-in-publish-window", "publish-in-join-window"}).Draw(t, "mode")
		joinAtTag := rapid.IntRange(1, len(pl.pubs)+3).Draw(t, "joinAtTag")
		// let the converter goroutines settle so that the join lands at a generated,
		// reproducible place in the tag stream (the oracle uses the traced position anyway)
		var jmuLock, jmuUnlock func()
		var cursorNow func() int
		settle := func() {
			// state-based: the converter goroutines have worked off everything published so
			// far (demuxer back at its queue once per packet, muxer once per frame), then the
			// from-the-start consumer has been handed every tag that was cached
			jmuLock()
			n := cursorNow()
			jmuUnlock()
			if !conv.WaitDone(n, bound) {
				evid.Violation(t, "flv-converter-stuck", pl, "the RTP demuxer / FLV muxer did not work off %d published packets within %v: %s", n, bound, conv.Describe())
			}
			mediah.WaitFor(bound, func() bool {
				c := 0
				for _, ev := range in.Trace() {
					if ev.Point == "flvpublish.cached" {
						c++
					}
				}
				return first.Len() >= c
			})
		}
		var jmu sync.Mutex
		var j *mediah.Rec
		var jcid media.CID
		cursor := 0
		jmuLock, jmuUnlock, cursorNow = jmu.Lock, jmu.Unlock, func() int { return cursor }
		publishNext := func(n int) {
			for ; n > 0; n-- {
				jmu.Lock()
				if cursor >= len(pl.pubs) {
					jmu.Unlock()
					return
				}
				p := pl.pubs[cursor]
				cursor++
				at := cursor
				jmu.Unlock()
				joinViewer(at - 1)
				s.WriteRtpPacket(p.P)
			}
		}
		join := func() {
			jmu.Lock()
			if j != nil {
				jmu.Unlock()
				return
			}
			j = mediah.NewRec("joiner")
			rec := j
			jmu.Unlock()
			cid := s.StartConsume(rec, media.FLVPacket, "joiner")
			jmu.Lock()
			jcid = cid
			jmu.Unlock()
		}
		inWindow := false
		switch mode {
		case "join-in-publish-window":
			// the join runs inside the FLV publisher's cache-then-broadcast window of the k-th tag
			in.Add(&sched.Directive{Point: "flvpublish.cached", Occ: joinAtTag, Do: func() { inWindow = true; join() }})
			publishNext(len(pl.pubs))
			settle()
			join() // the window was never reached: a plain join at the end
		case "publish-in-join-window":
			publishNext(pause)
			settle()
			cachedBefore := func() int {
				n := 0
				for _, ev := range in.Trace() {
					if ev.Point == "flvpublish.cached" {
						n++
					}
				}
				return n
			}
			// while the joiner is between its snapshot and its registration, packets are
			// published; the window stays open until a tag was cached or the grace ran out
			in.Add(&sched.Directive{Point: "join.snapshotted", Occ: 1, Filter: func(o interface{}) bool {
				cid, ok := media.VerifConsumptionCID(o)
				return ok && cid.Type() == media.FLVPacket && cid != firstCID
			}, Do: func() {
				inWindow = true
				before := cachedBefore()
				publishNext(3)
				mediah.WaitFor(12*time.Millisecond, func() bool { return cachedBefore() > before })
			}})
			join()
			publishNext(len(pl.pubs))
		default:
			publishNext(pause)
			settle()
			join()
			publishNext(len(pl.pubs))
		}
		if !in.Wait(bound) {
			evid.Violation(t, "stuck", pl, "an operation started inside a window never finished")
		}
		settle()
		if !tr.WaitIdle(s, []media.CID{firstCID, jcid}, bound) {
			evid.Violation(t, "flv-delivery-stuck", pl, "FLV consumers did not drain: %s", tr.Describe(s, []media.CID{firstCID, jcid}))
		}
		// the FLV converter runs on goroutines of its own: a tag it has cached may not have
		// been broadcast yet although every consumer queue is idle (under load the gap can
		// be long). The from-the-start consumer is owed every cached tag; give it the bound.
		cachedTags := func() int {
			n := 0
			for _, ev := range in.Trace() {
				if ev.Point == "flvpublish.cached" {
					n++
				}
			}
			return n
		}
		mediah.WaitFor(bound, func() bool { return first.Len() >= cachedTags() })
		settle()
		evid.Eval(1)
		// linearisation: number of tags cached before the joiner's snapshot
		m := 0
		for _, ev := range in.Trace() {
			if ev.Point == "join.snapshotted" {
				if cid, ok := media.VerifConsumptionCID(ev.Obj); ok && cid == jcid {
					break
				}
			}
			if ev.Point == "flvpublish.cached" {
				m++
			}
		}
		if ch := first.Changed(); len(ch) > 0 {
			tg := first.Got()[ch[0]].(*flv.Tag)
			evid.Violation(t, "flv-shared-tag-modified", pl, "%d tags handed to a consumer were modified afterwards (first: tag %d, now %s): a tag is shared by every consumer and by the GOP cache, another viewer rewrote it", len(ch), ch[0], tagStr(tg))
		}
		all := first.Got() // the from-the-start consumer saw every tag, in order
		if m > len(all) {
			evid.Violation(t, "flv-first-consumer-lost-tags", pl, "%d tags were cached before the join but the from-the-start consumer only received %d", m, len(all))
		}
		fc := flvCase{Codec: pl.Codec, CacheGop: pl.CacheGop, Audio: pl.Audio, Packets: pl.Packets, PauseAt: pause, NoSprop: noSprop}
		// absolute part (the rest of the oracle is relative to what the from-the-start
		// consumer was handed): a joiner can only be given "the metadata tag and the video
		// and audio sequence headers" if the stream has produced them — in the tag stream
		// of the stream no media tag may come before the sequence header of its kind, and
		// none before the metadata tag
		{
			seenMeta, seenVH, seenAH := false, false, false
			for i, p := range all {
				tg := p.(*flv.Tag)
				switch k := classify(tg); {
				case k == flvMeta:
					seenMeta = true
				case k == flvVideoHeader:
					seenVH = true
				case k == flvAudioHeader:
					seenAH = true
				case (k == flvKey || k == flvMedia) && (!seenMeta || (tg.TagType == 9 && !seenVH) || (tg.TagType == 8 && !seenAH)):
					var l []string
					for _, q := range all[:i+1] {
						l = append(l, tagStr(q.(*flv.Tag)))
					}
					fc.TagsSeen = l
					evid.Violation(t, "flv-media-before-headers", fc, "tag %d of the stream's FLV output is a media tag (type %d) but the stream has not produced its headers before it (metadata %v, video sequence header %v, audio sequence header %v): no joiner can be given them; tags so far %v", i, tg.TagType, seenMeta, seenVH, seenAH, l)
				}
			}
		}
		if noSprop {
			evid.Class(fmt.Sprintf("flv: SDP without sprop, parameter sets in band (audio first: %v)", audioFirst))
		}
		var meta, vh, ah *flv.Tag
		gopFrom := -1
		for i := 0; i < m; i++ {
			tg := all[i].(*flv.Tag)
			fc.TagsSeen = append(fc.TagsSeen, tagStr(tg))
			switch classify(tg) {
			case flvMeta:
				meta = tg
			case flvVideoHeader:
				vh = tg
			case flvAudioHeader:
				ah = tg
			case flvKey:
				gopFrom = i
			}
		}
		if !pl.CacheGop {
			gopFrom = -1
		}
		// reference list: headers re-stamped to the first replayed media tag, then the GOP, then live
		var gop []*flv.Tag
		if gopFrom >= 0 {
			for i := gopFrom; i < m; i++ {
				tg := all[i].(*flv.Tag)
				if k := classify(tg); k == flvKey || k == flvMedia {
					gop = append(gop, tg)
				}
			}
		}
		ts0 := uint32(0)
		if len(gop) > 0 {
			ts0 = gop[0].Timestamp
		}
		type want struct {
			same *flv.Tag // identical object expected
			hdr  *flv.Tag // header copy expected: same type and data, Timestamp ts0
		}
		var ref []want
		for _, h := range []*flv.Tag{meta, vh, ah} {
			if h != nil {
				ref = append(ref, want{hdr: h})
				fc.Reference = append(fc.Reference, fmt.Sprintf("hdr(%s)@%d", tagStr(h), ts0))
			}
		}
		for _, g := range gop {
			ref = append(ref, want{same: g})
			fc.Reference = append(fc.Reference, tagStr(g))
		}
		for i := m; i < len(all); i++ {
			ref = append(ref, want{same: all[i].(*flv.Tag)})
			fc.Reference = append(fc.Reference, tagStr(all[i].(*flv.Tag)))
		}
		// same for the joiner: the broadcast of the last tag reaches the consumers one after the other
		if mediah.WaitFor(bound, func() bool { return j.Len() >= len(ref) }) {
			tr.WaitIdle(s, []media.CID{jcid}, bound)
		}
		got := j.Got()
		for _, g := range got {
			fc.Joiner = append(fc.Joiner, tagStr(g.(*flv.Tag)))
		}
		if len(got) != len(ref) {
			evid.Violation(t, "flv-join", fc, "FLV joiner received %d tags, reference says %d\n got  %v\n want %v", len(got), len(ref), fc.Joiner, fc.Reference)
		}
		for i, w := range ref {
			g := got[i].(*flv.Tag)
			if w.same != nil {
				if g != w.same {
					evid.Violation(t, "flv-join", fc, "FLV joiner tag %d is %s, reference %s\n got  %v\n want %v", i, tagStr(g), tagStr(w.same), fc.Joiner, fc.Reference)
				}
			} else if g.TagType != w.hdr.TagType || !bytes.Equal(g.Data, w.hdr.Data) || g.Timestamp != ts0 {
				evid.Violation(t, "flv-join-header", fc, "FLV joiner tag %d is %s, reference header %s stamped %d\n got  %v\n want %v", i, tagStr(g), tagStr(w.hdr), ts0, fc.Joiner, fc.Reference)
			}
		}
		if inWindow {
			evid.Class("flv: " + mode)
		}
		if len(gop) >= 2 && m < len(all) {
			evid.Class("flv: join inside a GOP with live tags after it")
			evid.Nontrivial(evid.FP("flv", fmt.Sprint(pl.Packets), pl.CacheGop, pause))
			evid.Sample("flv", fc)
		}
	})
}

// Long-running stream: the parameter sets are sent once, in band, at the very
// beginning (legal, and what many cameras do), then tens of thousands of packets
// follow — more than the 16-bit RTP sequence space. Joiners arrive far into the
// stream, in particular just before and after 32768 and 65536 packets, and must
// still be handed the parameter sets and the current GOP.
func TestLateJoinLongRunning(t *testing.T) { longRunning(t, false) }

// The same with a single GOP of 70 000 packets: joiners deep inside it (after
// 1 000 … n-10 packets; n = 20 000 in the quick tier, 70 000 in the thorough one) are owed every packet from the key picture on.
func TestLateJoinHugeGop(t *testing.T) { longRunning(t, true) }

func longRunning(t *testing.T, hugeGop bool) {
	for _, cdc := range []esgen.Codec{esgen.H264, esgen.H265} {
		pl := &plan{cdc: cdc, Codec: cdc.String(), CacheGop: true}
		seq := uint16(evid.Seed()*7919 + 60000)
		ts := uint32(5000)
		add := func(payload []byte, desc string, ps map[byte]bool, vcl, keyStart, anyKey, marker bool) {
			pk := rtppack.Pkt{PT: 96, Seq: seq, TS: ts, SSRC: 11, Marker: marker, Payload: payload}
			seq++
			pb := &mediah.Pub{P: rtppack.ToIpchub(rtp.ChannelVideo, pk.Marshal()), Channel: rtp.ChannelVideo, CarriesPS: ps, CarriesVCL: vcl, KeyStart: keyStart, AnyKeyData: anyKey, TS: ts, Desc: desc, Index: len(pl.pubs)}
			if pb.CarriesPS == nil {
				pb.CarriesPS = map[byte]bool{}
			}
			pl.pubs = append(pl.pubs, pb)
			pl.Packets = append(pl.Packets, desc)
		}
		hdr := func(typ byte, n int, tag int) []byte {
			b := []byte{0x60 | typ}
			if cdc == esgen.H265 {
				b = []byte{typ << 1, 1}
			}
			for len(b) < n {
				b = append(b, byte(0x80|tag>>uint(8*(len(b)%3))&0x7f))
			}
			return b
		}
		if cdc == esgen.H264 {
			add(rtppack.H264Single(esgen.RealH264SPS), "sps", map[byte]bool{esgen.H264SPS: true}, false, false, false, false)
			add(rtppack.H264Single(esgen.RealH264PPS), "pps", map[byte]bool{esgen.H264PPS: true}, false, false, false, false)
		} else {
			add(rtppack.H265Single(esgen.RealH265VPS), "vps", map[byte]bool{esgen.H265VPS: true}, false, false, false, false)
			add(rtppack.H265Single(esgen.RealH265SPS), "sps", map[byte]bool{esgen.H265SPS: true}, false, false, false, false)
			add(rtppack.H265Single(esgen.RealH265PPS), "pps", map[byte]bool{esgen.H265PPS: true}, false, false, false, false)
		}
		gops, perGop := 1420, 50
		if hugeGop {
			// one key picture at the very start and nothing but inter pictures after it (a
			// source with an "infinite" key-frame interval, or simply a long one at a high
			// bitrate): the current GOP is everything since then, however long it has become
			gops, perGop = 1, 20000
			if evid.Thorough() {
				perGop = 70000
			}
		}
		for g := 0; g < gops; g++ {
			ts += 3000
			var frags [][]byte
			if cdc == esgen.H264 {
				frags = rtppack.H264FuA(hdr(esgen.H264IDR, 40, g), 14)
			} else {
				frags = rtppack.H265FU(hdr(19, 40, g), 14)
			}
			for i, f := range frags {
				add(f, fmt.Sprintf("idr.fu%d", i), nil, true, i == 0, i == 0, i == len(frags)-1)
			}
			for i := len(frags); i < perGop; i++ {
				ts += 3000
				if cdc == esgen.H264 {
					add(rtppack.H264Single(hdr(esgen.H264Slice, 9, g*perGop+i)), "p", nil, true, false, false, true)
				} else {
					add(rtppack.H265Single(hdr(1, 9, g*perGop+i)), "p", nil, true, false, false, true)
				}
			}
		}
		n := len(pl.pubs)
		joins := []int{120, 9990, 32740, 32790, 33400, 49000, 65500, 65560, 66100, n - 60}
		if hugeGop {
			joins = []int{1000, 4090, 4100, 4200, 8200, 16390, n - 10}
			if n > 41000 {
				joins = append(joins, 40000, 65600)
			}
		}
		for _, k := range joins {
			pl.Joins = append(pl.Joins, k)
		}
		run(t, pl, false)
		if hugeGop {
			evid.Class("long-running: " + cdc.String() + fmt.Sprintf(" one GOP of %d packets", n))
		} else {
			evid.Class("long-running: " + cdc.String() + fmt.Sprintf(" %d packets, parameter sets only at the start", n))
		}
	}
}

// TestReplayFile: rapid failures replay through their .fail file; the JSON
// renderings of the deterministic tests (long-running stream, witness) are
// replayed by re-running that test.
func TestReplayFile(t *testing.T) {
	p := os.Getenv("VERIF_REPLAY_FILE")
	if p == "" {
		t.Skip("no replay file")
	}
	b, err := os.ReadFile(p)
	if err != nil {
		t.Fatal(err)
	}
	var doc struct {
		Case struct {
			Plan struct {
				Packets []string `json:"packets"`
			} `json:"plan"`
		} `json:"case"`
	}
	json.Unmarshal(b, &doc)
	if len(doc.Case.Plan.Packets) > 10000 {
		TestLateJoinLongRunning(t)
		return
	}
	TestWitnessFragmentedParameterSet(t)
	t.Log("generated cases replay through the rapid .fail file written next to this rendering")
}
