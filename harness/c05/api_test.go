package c05

import (
	"bytes"
	"encoding/json"
	"fmt"
	"io"
	"net/http"
	"net/url"
	"sort"
	"strings"
	"testing"
	"time"

	"github.com/cnotch/ipchub/media"
	"github.com/cnotch/ipchub/provider/auth"
	"pgregory.net/rapid"
	"verif/harness/lib/evid"
	"verif/harness/lib/mediah"
	"verif/harness/lib/refmodel"
	"verif/harness/lib/rtppack/esgen"
	"verif/harness/lib/srv"
)

// The registry through the management API of a running server — lookup
// (GET /api/v1/streams/{path}), close (DELETE /api/v1/streams/{path}), consumer
// stop (DELETE …:consumer?cid=) and the paged listing — over a path alphabet that
// includes what a URL makes difficult: blanks, '%' followed by two hex digits
// (a path that LOOKS escaped), '+', non-ASCII letters, upper case. The client
// escapes the path once, as any HTTP client does; the stream meant is the one
// whose canonical path equals the canonical form of the path the client named.
//
// Oracle (reference = set of live canonical paths, kept by the harness):
//   - GET answers with the stream registered under that path (its own path in the
//     body) exactly when it is live, 404 otherwise;
//   - DELETE closes that stream and no other: afterwards it is not returned by
//     lookup, every other live stream still is, and their consumers are untouched;
//   - the listing (all pages) is exactly the set of live streams, total and
//     consumer counts included.
var apiPaths = []string{"/live/a", "/live/b", "/LIVE/A", "/live/front door", "/live/front%20door", "/live/a%2fb", "/live/a/b", "/live/100%", "/live/c+d", "/live/c d", "/live/camÉra", "/live/%41"}

func keys(m map[string]*media.Stream) []string {
	var out []string
	for k := range m {
		out = append(out, k)
	}
	sort.Strings(out)
	return out
}

func apiEscape(p string) string {
	parts := strings.Split(p, "/")
	for i := range parts {
		parts[i] = url.PathEscape(parts[i])
	}
	return strings.Join(parts, "/")
}

func TestRegistryThroughAPI(t *testing.T) {
	evid.Checks(60, 1200)
	s := srv.Start(srv.Options{})
	srv.ResetUsers(&auth.User{Name: "root0", Password: "rootpw", Admin: true})
	hc := &http.Client{Timeout: 20 * time.Second}
	b, _ := json.Marshal(map[string]string{"username": "root0", "password": "rootpw"})
	resp, err := hc.Post(s.HTTP()+"/api/v1/login", "application/json", bytes.NewReader(b))
	if err != nil {
		t.Fatalf("machinery: login: %v", err)
	}
	var tok struct {
		AToken string `json:"access_token"`
	}
	raw, _ := io.ReadAll(resp.Body)
	resp.Body.Close()
	if resp.StatusCode != 200 || json.Unmarshal(raw, &tok) != nil || tok.AToken == "" {
		t.Fatalf("machinery: login as root0 failed: %d %s", resp.StatusCode, raw)
	}
	do := func(method, path string, q url.Values) (int, []byte) {
		if q == nil {
			q = url.Values{}
		}
		q.Set("token", tok.AToken)
		req, _ := http.NewRequest(method, s.HTTP()+path+"?"+q.Encode(), nil)
		r, err := hc.Do(req)
		if err != nil {
			t.Fatalf("machinery: %s %s: %v", method, path, err)
		}
		defer r.Body.Close()
		body, _ := io.ReadAll(r.Body)
		return r.StatusCode, body
	}
	rapid.Check(t, func(t *rapid.T) {
		evid.Eval(1)
		live := map[string]*media.Stream{} // canonical path -> stream
		cons := map[string][]*mediah.Rec{}
		var hist []string
		defer func() {
			for _, st := range live {
				srv.Unpublish(st)
			}
		}()
		tricky := false
		others := func(except string) {
			for p, st := range live {
				if p == except {
					continue
				}
				if media.Get(p) != st {
					evid.Violation(t, "api-other-stream-touched", hist, "stream %q is no longer returned by lookup although only %q was addressed", p, except)
				}
				for i, r := range cons[p] {
					if r.Closed() > 0 {
						evid.Violation(t, "api-other-stream-touched", hist, "consumer %d of stream %q was closed although only %q was addressed", i, p, except)
					}
				}
			}
		}
		steps := rapid.IntRange(3, 16).Draw(t, "steps")
		for i := 0; i < steps; i++ {
			named := rapid.SampledFrom(apiPaths).Draw(t, "path")
			cp := refmodel.Canon(named)
			if strings.ContainsAny(named, "% +É") {
				tricky = true
			}
			switch k := rapid.IntRange(0, 9).Draw(t, "kind"); {
			case k <= 2: // publish (a second publish on a live path replaces it: C05's core checks cover that; here it is skipped)
				if live[cp] != nil {
					continue
				}
				hist = append(hist, "publish "+named)
				st := srv.PublishStream(named, mediah.SDP(esgen.H264, false))
				if st.Path() != cp {
					evid.Violation(t, "api-canonical-path", hist, "a stream published as %q has path %q, the canonical form is %q", named, st.Path(), cp)
				}
				live[cp] = st
				for n := rapid.IntRange(0, 2).Draw(t, "consumers"); n > 0; n-- {
					r := mediah.NewRec(cp)
					st.StartConsume(r, media.RTPPacket, "api")
					cons[cp] = append(cons[cp], r)
				}
			case k <= 4: // lookup
				hist = append(hist, "GET "+named)
				code, body := do("GET", "/api/v1/streams"+apiEscape(named), nil)
				st := live[cp]
				if st == nil {
					if code == 200 {
						evid.Violation(t, "api-lookup", hist, "GET of %q (canonical %q, not live) answered 200: %.200s", named, cp, body)
					}
					continue
				}
				var info struct {
					Path string `json:"path"`
					CC   int    `json:"cc"`
				}
				if code != 200 || json.Unmarshal(body, &info) != nil || info.Path != cp {
					evid.Violation(t, "api-lookup", hist, "GET of the live stream %q (named %q, sent as %q): status %d, body path %q", cp, named, apiEscape(named), code, info.Path)
				}
				if info.CC != len(cons[cp]) {
					evid.Violation(t, "api-lookup", hist, "GET of %q reports %d consumers, the stream has %d", cp, info.CC, len(cons[cp]))
				}
				others("")
			case k <= 6: // close
				hist = append(hist, "DELETE "+named)
				code, body := do("DELETE", "/api/v1/streams"+apiEscape(named), nil)
				if code != 200 {
					evid.Violation(t, "api-close", hist, "DELETE of %q answered %d %.100s", named, code, body)
				}
				if st := live[cp]; st != nil {
					if !srv.WaitFor(10*time.Second, func() bool { return media.Get(cp) == nil }) {
						evid.Violation(t, "api-close", hist, "DELETE of the live stream %q (named %q, sent as %q) was answered 200 but lookup still returns it", cp, named, apiEscape(named))
					}
					for ci, r := range cons[cp] {
						r := r
						if !srv.WaitFor(10*time.Second, func() bool { return r.Closed() > 0 }) {
							evid.Violation(t, "api-close", hist, "consumer %d of the closed stream %q was not closed", ci, cp)
						}
					}
					delete(live, cp)
					delete(cons, cp)
				}
				others(cp)
			case k == 7: // stop one consumer
				st := live[cp]
				if st == nil || len(cons[cp]) == 0 {
					continue
				}
				infos := st.Info(true).Consumptions
				if len(infos) == 0 {
					continue
				}
				victim := infos[rapid.IntRange(0, len(infos)-1).Draw(t, "victim")]
				hist = append(hist, fmt.Sprintf("DELETE %s:consumer cid=%d", named, victim.ID))
				before := st.ConsumerCount()
				do("DELETE", "/api/v1/streams"+apiEscape(named)+":consumer", url.Values{"cid": {fmt.Sprint(victim.ID)}})
				if !srv.WaitFor(10*time.Second, func() bool { return st.ConsumerCount() == before-1 }) {
					evid.Violation(t, "api-stop-consumer", hist, "stopping consumer %d of %q (named %q): the stream still has %d consumers (had %d)", victim.ID, cp, named, st.ConsumerCount(), before)
				}
				// forget the recorder that was closed
				srv.WaitFor(10*time.Second, func() bool {
					for _, r := range cons[cp] {
						if r.Closed() > 0 {
							return true
						}
					}
					return false
				})
				var keep []*mediah.Rec
				for _, r := range cons[cp] {
					if r.Closed() == 0 {
						keep = append(keep, r)
					}
				}
				cons[cp] = keep
				others(cp)
			default: // listing, every page; sometimes the stream a page token names leaves between two pages
				size := rapid.IntRange(1, 4).Draw(t, "pageSize")
				leaveMidWalk := rapid.IntRange(0, 2).Draw(t, "tokenStreamLeavesMidWalk") == 0
				arbitrary := ""
				if rapid.IntRange(0, 3).Draw(t, "arbitraryToken") == 0 {
					// a token that names no stream at all (a directory prefix, a stream that is gone)
					arbitrary = rapid.SampledFrom([]string{"/live", "/live/", "/live/b0", "/live/c", "/l", "/live/zzz"}).Draw(t, "token")
				}
				hist = append(hist, fmt.Sprintf("GET streams page_size=%d (all pages; first token %q; token's stream leaves mid-walk: %v)", size, arbitrary, leaveMidWalk))
				startLive := map[string]bool{}
				for p := range live {
					startLive[p] = true
				}
				seen := map[string]int{}
				tokenv := arbitrary
				for page := 0; page < 60; page++ {
					code, body := do("GET", "/api/v1/streams", url.Values{"page_size": {fmt.Sprint(size)}, "page_token": {tokenv}})
					var l struct {
						Total   int    `json:"total"`
						Next    string `json:"next_page_token"`
						Streams []struct {
							Path string `json:"path"`
							CC   int    `json:"cc"`
						} `json:"streams"`
					}
					if code != 200 || json.Unmarshal(body, &l) != nil {
						evid.Violation(t, "api-listing", hist, "listing: status %d %.200s", code, body)
					}
					for _, st := range l.Streams {
						if strings.HasPrefix(st.Path, "/live/") {
							seen[st.Path]++
							if want, ok := cons[st.Path]; ok && live[st.Path] != nil && st.CC != len(want) {
								evid.Violation(t, "api-listing", hist, "the listing shows %q with %d consumers, it has %d", st.Path, st.CC, len(want))
							}
						}
					}
					if len(l.Streams) == 0 || l.Next == tokenv {
						break
					}
					tokenv = l.Next
					if leaveMidWalk && live[tokenv] != nil && len(live) > 1 {
						// the stream the token names ends before the next page is asked for
						leaveMidWalk = false
						hist = append(hist, "  (between two pages: unpublish "+tokenv+")")
						srv.Unpublish(live[tokenv])
						delete(live, tokenv)
						delete(cons, tokenv)
					}
				}
				// every stream that was live during the whole walk and sorts behind the first
				// token appears exactly once; nothing that was never live appears
				for p := range live {
					if p > arbitrary && seen[p] != 1 {
						evid.Violation(t, "api-listing", hist, "the live stream %q was listed %d times during the walk (page size %d, first token %q); listed: %v; live now: %v", p, seen[p], size, arbitrary, seen, keys(live))
					}
				}
				for p, n := range seen {
					if !startLive[p] || n > 1 || (p <= arbitrary) {
						evid.Violation(t, "api-listing", hist, "the walk listed %q %d times (live at the start: %v, first token %q)", p, n, startLive[p], arbitrary)
					}
				}
			}
		}
		evid.Class("registry through the management API")
		if tricky && len(hist) >= 3 {
			evid.Nontrivial(evid.FP("api", fmt.Sprint(hist)))
			if evid.WantSample("api") {
				evid.Sample("api", hist)
			}
		}
	})
}
