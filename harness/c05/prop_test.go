// C05 — one live stream per path; replace / unregister / idle-close keep the
// registry consistent.
//
// A rapid state machine drives media.Regist / Unregist / Stream.Close / the
// idle-close decision / attach / detach over a few canonical paths in several
// spellings, in lock-step with a sequential reference registry written from the
// property statement. After every step every spelling is looked up and
// media.Count / media.Infos are compared with the model. Window directives race
// a second Regist inside Regist's load-then-store window and inside Unregist's
// load-then-delete window.
package c05

import (
	"fmt"
	"sort"
	"sync"
	"testing"
	"time"

	"github.com/cnotch/ipchub/config"
	"github.com/cnotch/ipchub/media"
	"pgregory.net/rapid"
	"verif/harness/lib/evid"
	"verif/harness/lib/mediah"
	"verif/harness/lib/refmodel"
	"verif/harness/lib/rtppack/esgen"
	"verif/harness/lib/sched"
)

func TestMain(m *testing.M) { evid.Main(m, "C05") }

var spellings = map[string][]string{
	"/live/a": {"/live/a", "/Live/A", "live/a", " /live//a ", "/live/./a", "/LIVE/x/../a"},
	"/live/b": {"/live/b", "/LIVE/B", "live/b", "/live/b/../b"},
	"/c":      {"/c", "C", " /c ", "//c"},
	// letters outside ASCII have cases too
	"/cam/éö": {"/cam/éö", "/cam/ÉÖ", "/CAM/éÖ", "cam/Éö"},
	// the root path is a path like any other (ANNOUNCE rtsp://host:554/)
	"/": {"/", "", " ", "//", "/."},
}
var canonPaths = []string{"/live/a", "/live/b", "/c", "/cam/éö", "/"}

// model -----------------------------------------------------------------------

type mstream struct {
	id        int
	path      string
	h265      bool
	audio     bool
	s         *media.Stream
	closed    bool
	consumers map[int]*mconsumer
}

type mconsumer struct {
	rec *mediah.Rec
	cid media.CID
	flv bool
}

type model struct {
	streams  []*mstream
	registry map[string]*mstream
}

func (m *model) closeStream(st *mstream) {
	st.closed = true
	st.consumers = map[int]*mconsumer{}
	// "a closed or unregistered stream is never returned by lookup"
	if m.registry[st.path] == st {
		delete(m.registry, st.path)
	}
}

type op struct {
	Op     string `json:"op"`
	Stream int    `json:"stream,omitempty"`
	Path   string `json:"path,omitempty"`
	H265   bool   `json:"h265,omitempty"`
	Audio  bool   `json:"audio,omitempty"`
	FLV    bool   `json:"flv,omitempty"`
	Cons   int    `json:"consumer,omitempty"`
	Long   bool   `json:"long_period,omitempty"`
	Repl   bool   `json:"as_replaced,omitempty"`
	Window string `json:"window,omitempty"`
}

func newStream(path string, h265, audio bool) *media.Stream {
	c := esgen.H264
	if h265 {
		c = esgen.H265
	}
	return media.NewStream(path, mediah.SDP(c, audio))
}

func check(t evid.TB, m *model, hist []op) {
	for _, cp := range canonPaths {
		want := m.registry[cp]
		for _, sp := range spellings[cp] {
			got := media.Get(sp)
			if want == nil && got != nil {
				desc := "a stream the model does not know"
				for _, st := range m.streams {
					if st.s == got {
						desc = fmt.Sprintf("stream #%d (closed=%v)", st.id, st.closed)
					}
				}
				evid.Violation(t, "lookup", hist, "Get(%q) returns %s, reference says nothing is registered under %s", sp, desc, cp)
			}
			if want != nil && got != want.s {
				evid.Violation(t, "lookup", hist, "Get(%q) does not return stream #%d, the most recently registered live stream of %s (got nil=%v)", sp, want.id, cp, got == nil)
			}
		}
		if refmodel.Canon(spellings[cp][1]) != cp {
			t.Fatalf("harness: spelling table wrong for %s", cp)
		}
	}
	wantStreams, wantCons := 0, 0
	var wantPaths []string
	for p, st := range m.registry {
		wantStreams++
		wantCons += len(st.consumers)
		wantPaths = append(wantPaths, fmt.Sprintf("%s:%d", p, len(st.consumers)))
	}
	sort.Strings(wantPaths)
	sc, cc := media.Count()
	if sc != wantStreams || cc != wantCons {
		evid.Violation(t, "count", hist, "media.Count() = (%d streams, %d consumers), reference (%d, %d)", sc, cc, wantStreams, wantCons)
	}
	n, infos := media.Infos("", 100, true)
	var gotPaths []string
	for _, si := range infos {
		gotPaths = append(gotPaths, fmt.Sprintf("%s:%d", si.Path, si.ConsumptionCount))
		if len(si.Consumptions) != si.ConsumptionCount {
			evid.Violation(t, "infos", hist, "listing of %s shows %d consumer rows but a count of %d", si.Path, len(si.Consumptions), si.ConsumptionCount)
		}
	}
	sort.Strings(gotPaths)
	if n != wantStreams || fmt.Sprint(gotPaths) != fmt.Sprint(wantPaths) {
		evid.Violation(t, "infos", hist, "media.Infos() = %d %v, reference %d %v", n, gotPaths, wantStreams, wantPaths)
	}
	// status of every stream the history created
	for _, st := range m.streams {
		open := media.VerifStatus(st.s) == media.StreamOK
		if open == st.closed {
			evid.Violation(t, "status", hist, "stream #%d (%s): open=%v, reference closed=%v", st.id, st.path, open, st.closed)
		}
		if got := st.s.ConsumerCount(); got != len(st.consumers) {
			evid.Violation(t, "consumer-count", hist, "stream #%d (%s): ConsumerCount()=%d, reference %d", st.id, st.path, got, len(st.consumers))
		}
	}
}

func TestRegistryHistories(t *testing.T) {
	evid.Rule("rapid state machine over media.Regist / Unregist / Stream.Close / idle-close decision (short and long period, as idle and as replaced) / attach (RTP, FLV) / detach on 3 canonical paths x 4-6 spellings, compared after every step with a sequential reference registry: Get for every spelling, Count, Infos, per-stream status and consumer count; plus window directives racing a second Regist inside Regist's load-then-store and Unregist's load-then-delete windows. Non-trivial = history contains register-over-existing followed by unregister of the old stream, or an idle decision with an FLV-only audience, or a racing pair; distinct = distinct histories")
	evid.Checks(2500, 30000)
	config.VerifSet(":0", false, false, "", 5)
	rapid.Check(t, func(t *rapid.T) {
		media.UnregistAll()
		m := &model{registry: map[string]*mstream{}}
		var hist []op
		replacedOver, unregOld, idleFlvOnly, idleRetiredAlone := false, false, false, false
		retired := map[*mstream]bool{}
		defer func() {
			for _, st := range m.streams {
				st.s.Close()
			}
			media.UnregistAll()
		}()
		steps := rapid.IntRange(1, 25).Draw(t, "steps")
		nextCons := 0
		for i := 0; i < steps; i++ {
			evid.Eval(1)
			k := rapid.IntRange(0, 11).Draw(t, "op")
			pickStream := func(label string) *mstream {
				if len(m.streams) == 0 {
					return nil
				}
				return m.streams[rapid.IntRange(0, len(m.streams)-1).Draw(t, label)]
			}
			// biased pick: half of the time a stream for which the operation is interesting
			prefer := func(label string, want func(*mstream) bool) *mstream {
				var c []*mstream
				for _, st := range m.streams {
					if want(st) {
						c = append(c, st)
					}
				}
				if len(c) > 0 && rapid.Bool().Draw(t, label+"Biased") {
					return c[rapid.IntRange(0, len(c)-1).Draw(t, label+"Pick")]
				}
				return pickStream(label)
			}
			flvOnlyAudience := func(st *mstream) bool {
				if st.closed || len(st.consumers) == 0 {
					return false
				}
				for _, c := range st.consumers {
					if !c.flv {
						return false
					}
				}
				return true
			}
			switch {
			case k <= 2 || len(m.streams) == 0: // register a fresh stream
				cp := rapid.SampledFrom(canonPaths).Draw(t, "path")
				sp := rapid.SampledFrom(spellings[cp]).Draw(t, "spelling")
				st := &mstream{id: len(m.streams), path: cp, h265: rapid.IntRange(0, 2).Draw(t, "h265") == 0, audio: rapid.Bool().Draw(t, "audio"), consumers: map[int]*mconsumer{}}
				st.s = newStream(sp, st.h265, st.audio)
				if (st.s.Hlsable() != nil) != (!st.h265 && st.audio) {
					t.Fatalf("harness assumption broken: HLS exists exactly for H.264 + AAC streams (h265=%v audio=%v hls=%v)", st.h265, st.audio, st.s.Hlsable() != nil)
				}
				m.streams = append(m.streams, st)
				hist = append(hist, op{Op: "regist", Stream: st.id, Path: sp, H265: st.h265, Audio: st.audio})
				media.Regist(st.s)
				if old := m.registry[cp]; old != nil && old != st {
					replacedOver = true
					retired[old] = true
					if len(old.consumers) == 0 {
						old.closed = true // retired and closed at once
					}
				}
				m.registry[cp] = st
			case k == 3: // unregister (publisher / pull client going away)
				st := prefer("unregWho", func(st *mstream) bool { return retired[st] && !st.closed })
				hist = append(hist, op{Op: "unregist", Stream: st.id})
				media.Unregist(st.s)
				if retired[st] && !st.closed {
					unregOld = true
				}
				if m.registry[st.path] == st {
					delete(m.registry, st.path)
				}
				m.closeStream(st)
			case k == 4: // administrative delete / publisher close
				st := pickStream("closeWho")
				hist = append(hist, op{Op: "close", Stream: st.id})
				st.s.Close()
				m.closeStream(st)
			case k == 5 || k == 6: // one idle-close decision
				st := prefer("idleWho", func(st *mstream) bool {
					// interesting for the idle decision: an FLV-only audience, or a retired stream
					// (replaced, still open) that nobody watches any more
					return flvOnlyAudience(st) || (retired[st] && !st.closed && len(st.consumers) == 0)
				})
				long := rapid.Bool().Draw(t, "longPeriod")
				repl := rapid.Bool().Draw(t, "asReplaced")
				hist = append(hist, op{Op: "idle-tick", Stream: st.id, Long: long, Repl: repl})
				d := time.Nanosecond
				if long {
					d = time.Hour
				}
				status := media.StreamNoConsumer
				if repl {
					status = media.StreamReplaced
				}
				media.VerifIdleCloseTick(st.s, d, status)
				if !st.closed {
					if retired[st] && len(st.consumers) == 0 && m.registry[st.path] == nil {
						idleRetiredAlone = true
					}
					flvOnly := len(st.consumers) > 0
					for _, c := range st.consumers {
						if !c.flv {
							flvOnly = false
						}
					}
					if flvOnly {
						idleFlvOnly = true
					}
					recentHls := !st.h265 && st.audio && long // H.264+AAC streams have an HLS playlist whose last access is its creation
					if len(st.consumers) == 0 && !recentHls {
						m.closeStream(st)
					}
				}
			case k <= 9: // attach
				st := prefer("attachWho", func(st *mstream) bool { return !st.closed })
				if st.closed {
					continue // attaching to a dead stream is property C03's subject
				}
				flv := rapid.IntRange(0, 2).Draw(t, "flv") == 0
				c := &mconsumer{rec: mediah.NewRec(fmt.Sprint(nextCons)), flv: flv}
				pt := media.RTPPacket
				if flv {
					pt = media.FLVPacket
				}
				c.cid = st.s.StartConsume(c.rec, pt, "c05")
				st.consumers[nextCons] = c
				hist = append(hist, op{Op: "attach", Stream: st.id, Cons: nextCons, FLV: flv})
				nextCons++
			default: // detach
				st := prefer("detachWho", func(st *mstream) bool { return retired[st] && !st.closed && len(st.consumers) > 0 })
				for id, c := range st.consumers {
					st.s.StopConsume(c.cid)
					delete(st.consumers, id)
					hist = append(hist, op{Op: "detach", Stream: st.id, Cons: id})
					break
				}
			}
			check(t, m, hist)
		}
		if replacedOver {
			evid.Class("register over an existing stream")
		}
		if unregOld {
			evid.Class("unregister of a retired (replaced, still open) stream")
		}
		if idleFlvOnly {
			evid.Class("idle decision with an FLV-only audience")
		}
		if idleRetiredAlone {
			evid.Class("idle decision on a retired stream whose successor is gone and whose consumers left")
		}
		if (replacedOver && unregOld) || idleFlvOnly || idleRetiredAlone {
			evid.Nontrivial(evid.FP(fmt.Sprint(hist)))
			evid.Sample("history", hist)
		}
	})
}

// Racing pairs: B runs entirely inside A's window. Whatever order the
// implementation gives the two, afterwards the path resolves to exactly one of
// the streams involved, and every other stream created for the path is retired
// (closed, since none has consumers) — never left live and unreachable, and an
// unregister of the old stream never removes the new one.
func TestRegistryRaces(t *testing.T) {
	evid.Checks(300, 5000)
	config.VerifSet(":0", false, false, "", 5)
	rapid.Check(t, func(t *rapid.T) {
		media.UnregistAll()
		defer media.UnregistAll()
		defer media.VerifSetSched(nil)
		evid.Eval(1)
		cp := rapid.SampledFrom(canonPaths).Draw(t, "path")
		sp := func() string { return rapid.SampledFrom(spellings[cp]).Draw(t, "spelling") }
		withOld := rapid.Bool().Draw(t, "existingStream")
		// the last five are three-party races: a lookup (GetOrCreate, as every player's
		// request makes it) runs inside the window of a registration that itself runs
		// inside the window of an ending stream (after seeded change C05-R6B)
		kind := rapid.SampledFrom([]string{"regist-in-regist", "regist-in-unregist", "unregist-in-regist",
			"regist-in-close", "lookup-in-regist-in-close", "lookup-in-regist-in-unregist", "lookup-in-regist", "lookup-in-close"}).Draw(t, "race")
		var hist []op
		var all []*media.Stream
		mk := func() *media.Stream { s := newStream(sp(), false, false); all = append(all, s); return s }
		var old *media.Stream
		if withOld || kind != "regist-in-regist" {
			old = mk()
			media.Regist(old)
			hist = append(hist, op{Op: "regist old"})
		}
		var a, b *media.Stream
		switch kind {
		case "regist-in-regist":
			a, b = mk(), mk()
		case "regist-in-unregist", "regist-in-close", "lookup-in-regist-in-close", "lookup-in-regist-in-unregist":
			b = mk()
		case "lookup-in-close":
		default:
			a = mk()
		}
		lookups := 0
		lookupPath := sp() // drawn here: the lookup itself runs on a helper goroutine
		lookup := func() { lookups++; media.GetOrCreate(lookupPath) }
		is := func(s *media.Stream) func(o interface{}) bool {
			return func(o interface{}) bool { return o == interface{}(s) }
		}
		in := sched.New(15 * time.Millisecond)
		ran := 0
		switch kind {
		case "regist-in-regist":
			in.Add(&sched.Directive{Point: "regist.loaded", Occ: 1, Filter: func(o interface{}) bool { return o == interface{}(a) }, Do: func() { ran++; media.Regist(b) }})
			media.VerifSetSched(in.Hook)
			hist = append(hist, op{Op: "Regist(A)", Window: "regist.loaded: Regist(B)"})
			media.Regist(a)
		case "regist-in-unregist":
			in.Add(&sched.Directive{Point: "unregist.loaded", Occ: 1, Filter: func(o interface{}) bool { return o == interface{}(old) }, Do: func() { ran++; media.Regist(b) }})
			media.VerifSetSched(in.Hook)
			hist = append(hist, op{Op: "Unregist(old)", Window: "unregist.loaded: Regist(B)"})
			media.Unregist(old)
		case "unregist-in-regist":
			in.Add(&sched.Directive{Point: "regist.loaded", Occ: 1, Filter: func(o interface{}) bool { return o == interface{}(a) }, Do: func() { ran++; media.Unregist(old) }})
			media.VerifSetSched(in.Hook)
			hist = append(hist, op{Op: "Regist(A)", Window: "regist.loaded: Unregist(old)"})
			media.Regist(a)
		case "regist-in-close", "lookup-in-regist-in-close":
			in.Add(&sched.Directive{Point: "close.marked", Occ: 1, Filter: is(old), Do: func() { ran++; media.Regist(b) }})
			w := "close.marked: Regist(B)"
			if kind == "lookup-in-regist-in-close" {
				in.Add(&sched.Directive{Point: "regist.loaded", Occ: 1, Filter: is(b), Do: lookup})
				w += " [regist.loaded: GetOrCreate]"
			}
			media.VerifSetSched(in.Hook)
			how := rapid.SampledFrom([]string{"Close", "idle close"}).Draw(t, "endedBy")
			hist = append(hist, op{Op: how + "(old)", Window: w})
			if how == "Close" {
				old.Close()
			} else {
				media.VerifIdleCloseTick(old, time.Nanosecond, media.StreamNoConsumer)
			}
		case "lookup-in-regist-in-unregist":
			in.Add(&sched.Directive{Point: "unregist.loaded", Occ: 1, Filter: is(old), Do: func() { ran++; media.Regist(b) }})
			in.Add(&sched.Directive{Point: "regist.loaded", Occ: 1, Filter: is(b), Do: lookup})
			media.VerifSetSched(in.Hook)
			hist = append(hist, op{Op: "Unregist(old)", Window: "unregist.loaded: Regist(B) [regist.loaded: GetOrCreate]"})
			media.Unregist(old)
		case "lookup-in-regist":
			in.Add(&sched.Directive{Point: "regist.loaded", Occ: 1, Filter: is(a), Do: func() { ran++; lookup() }})
			media.VerifSetSched(in.Hook)
			hist = append(hist, op{Op: "Regist(A)", Window: "regist.loaded: GetOrCreate"})
			media.Regist(a)
		case "lookup-in-close":
			in.Add(&sched.Directive{Point: "close.marked", Occ: 1, Filter: is(old), Do: func() { ran++; lookup() }})
			media.VerifSetSched(in.Hook)
			hist = append(hist, op{Op: "Close(old)", Window: "close.marked: GetOrCreate"})
			old.Close()
		}
		if !in.Wait(10 * time.Second) {
			evid.Violation(t, "race-stuck", hist, "an operation started inside a window never finished")
		}
		media.VerifSetSched(nil)
		got := media.Get(cp)
		live := 0
		for _, s := range all {
			if media.VerifStatus(s) == media.StreamOK {
				live++
				if s != got {
					evid.Violation(t, "unreachable-live-stream", hist, "%s: a stream created for %s is still live but lookup does not return it", kind, cp)
				}
			}
		}
		switch kind {
		case "regist-in-regist":
			if got != a && got != b {
				evid.Violation(t, "race-lookup", hist, "two racing Regist calls: the path resolves to neither of them")
			}
		case "regist-in-unregist":
			if got != b {
				evid.Violation(t, "successor-removed", hist, "Unregist(old) racing Regist(new): the path no longer resolves to the new stream (nil=%v)", got == nil)
			}
		case "unregist-in-regist":
			if got != a {
				evid.Violation(t, "successor-removed", hist, "Regist(new) racing Unregist(old): the path does not resolve to the new stream (nil=%v)", got == nil)
			}
		case "regist-in-close", "lookup-in-regist-in-close", "lookup-in-regist-in-unregist":
			if got != b {
				evid.Violation(t, "successor-removed", hist, "%s: the successor registered while the old stream was ending (lookups inside: %d) is not what the path resolves to (nil=%v, successor status %d)", kind, lookups, got == nil, media.VerifStatus(b))
			}
		case "lookup-in-regist":
			if got != a {
				evid.Violation(t, "successor-removed", hist, "a lookup inside Regist(A): the path does not resolve to A afterwards (nil=%v)", got == nil)
			}
		case "lookup-in-close":
			if got != nil {
				evid.Violation(t, "closed-still-registered", hist, "a lookup inside Close(old): the path still resolves to a stream afterwards (status %d)", media.VerifStatus(got))
			}
		}
		if live > 1 {
			evid.Violation(t, "two-live", hist, "%d live streams for one path", live)
		}
		sc, _ := media.Count()
		if (got == nil) != (sc == 0) || sc > 1 {
			evid.Violation(t, "count", hist, "media.Count() reports %d streams, lookup nil=%v", sc, got == nil)
		}
		if ran > 0 {
			evid.Class("race: " + kind)
			evid.Nontrivial(evid.FP(kind, withOld, cp))
			evid.Sample("race", hist)
		}
		for _, s := range all {
			s.Close()
		}
	})
}

// A close that does not come through Unregist (administrative delete, idle
// close) racing the registration of a successor on the same path, free-running:
// whichever order the two take, afterwards the path resolves to the successor
// (it is registered and live). No schedule point lies inside the registry's own
// critical sections, so this is unguided stress: two goroutines released together,
// many rounds.
func TestCloseRacingRegistStress(t *testing.T) {
	config.VerifSet(":0", false, false, "", 5)
	media.UnregistAll()
	defer media.UnregistAll()
	rounds := 4000
	if evid.Thorough() {
		rounds = 60000
	}
	for i := 0; i < rounds; i++ {
		path := fmt.Sprintf("/c05/race/%d", i%7)
		old, succ := newStream(path, true, false), newStream(path, true, false)
		media.Regist(old)
		start := make(chan struct{})
		var wg sync.WaitGroup
		wg.Add(2)
		how := i % 3
		go func() {
			defer wg.Done()
			<-start
			switch how {
			case 0:
				old.Close()
			case 1:
				media.VerifIdleCloseTick(old, time.Nanosecond, media.StreamNoConsumer)
			default:
				media.Unregist(old)
			}
		}()
		go func() { defer wg.Done(); <-start; media.Regist(succ) }()
		close(start)
		wg.Wait()
		evid.Eval(1)
		got := media.Get(path)
		if got != succ {
			evid.Violation(t, "successor-lost", map[string]any{"round": i, "old_ended_by": []string{"Close", "idle close", "Unregist"}[how]},
				"round %d: the old stream was ended (%s) while its successor registered; afterwards lookup does not return the successor (nil=%v, successor status %d)",
				i, []string{"Close", "idle close", "Unregist"}[how], got == nil, media.VerifStatus(succ))
		}
		if media.VerifStatus(old) == media.StreamOK {
			evid.Violation(t, "old-still-live", map[string]any{"round": i}, "round %d: the replaced / closed stream is still live", i)
		}
		media.Unregist(succ)
		if sc, _ := media.Count(); sc != 0 {
			evid.Violation(t, "count", map[string]any{"round": i}, "round %d: %d streams left registered", i, sc)
		}
	}
	evid.ClassN("stress: close / idle close / unregister racing the successor's Regist", int64(rounds))
	evid.NontrivialN(int64(rounds) / 7 * 6) // rounds differ by (path, how) and by the schedule the runtime gave them; counted conservatively
}

// The life of a retired stream: replaced while it still has consumers, it keeps
// serving them; its successor may leave in the meantime; when its last consumer
// has left, the next idle decision closes it (whatever happened to the
// successor), and never before. Generated: consumer kinds, the way and the
// moment the successor leaves, the order of detaches and decisions.
func TestRetiredStreamLifecycle(t *testing.T) {
	evid.Checks(400, 6000)
	config.VerifSet(":0", false, false, "", 5)
	rapid.Check(t, func(t *rapid.T) {
		media.UnregistAll()
		defer media.UnregistAll()
		evid.Eval(1)
		cp := rapid.SampledFrom(canonPaths).Draw(t, "path")
		sp := func() string { return rapid.SampledFrom(spellings[cp]).Draw(t, "spelling") }
		h265 := rapid.Bool().Draw(t, "h265")
		old := newStream(sp(), h265, !h265 && rapid.Bool().Draw(t, "audio"))
		defer old.Close()
		media.Regist(old)
		n := rapid.IntRange(1, 3).Draw(t, "consumers")
		var cids []media.CID
		for i := 0; i < n; i++ {
			pt := media.RTPPacket
			if rapid.IntRange(0, 2).Draw(t, "flv") == 0 {
				pt = media.FLVPacket
			}
			cids = append(cids, old.StartConsume(mediah.NewRec("life"), pt, "life"))
		}
		succ := newStream(sp(), true, false)
		defer succ.Close()
		media.Regist(succ) // old is retired, still open
		var hist []string
		fail := func(check, format string, a ...any) {
			evid.Violation(t, check, map[string]any{"path": cp, "consumers": n, "history": hist}, format, a...)
		}
		if media.VerifStatus(old) != media.StreamOK {
			fail("retired-closed-early", "a replaced stream with %d consumers was closed at once", n)
		}
		succLeaves := rapid.SampledFrom([]string{"never", "unregist", "close", "idle"}).Draw(t, "successorLeaves")
		leaveAfter := rapid.IntRange(0, n).Draw(t, "successorLeavesAfterDetaches")
		succGone := false
		leave := func() {
			switch succLeaves {
			case "unregist":
				media.Unregist(succ)
			case "close":
				succ.Close()
			case "idle":
				media.VerifIdleCloseTick(succ, time.Nanosecond, media.StreamNoConsumer)
			default:
				return
			}
			succGone = true
			hist = append(hist, "successor leaves by "+succLeaves)
		}
		for i := 0; i <= n; i++ {
			if i == leaveAfter {
				leave()
			}
			// an idle decision now: consumers of old left so far = i
			if rapid.Bool().Draw(t, "tick") || i == n {
				hist = append(hist, fmt.Sprintf("idle decision on the retired stream with %d consumers left", n-i))
				media.VerifIdleCloseTick(old, time.Nanosecond, media.StreamReplaced)
				open := media.VerifStatus(old) == media.StreamOK
				if i < n && !open {
					fail("retired-closed-with-consumers", "the retired stream was closed by an idle decision while %d consumers were attached", n-i)
				}
				if i == n && open {
					fail("retired-never-closed", "the retired stream has no consumer left, yet the idle decision did not close it (successor gone=%v)", succGone)
				}
			}
			if i < n {
				old.StopConsume(cids[i])
				hist = append(hist, "consumer detaches")
			}
			got := media.Get(cp)
			if succGone && got != nil {
				fail("lookup", "the successor left, yet lookup returns a stream")
			}
			if !succGone && got != succ {
				fail("lookup", "lookup does not return the successor")
			}
		}
		if succGone {
			evid.Class("retired stream outlives its successor (" + succLeaves + ")")
		} else {
			evid.Class("retired stream closed while its successor is live")
		}
		evid.Nontrivial(evid.FP("life", cp, n, succLeaves, leaveAfter, h265))
	})
}
