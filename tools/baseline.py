#!/usr/bin/env python3
"""Runs cnotch/ipchub's own test suite with the verif build tag OFF and compares
with the pinned baseline (/root/.vp/BASELINE.json stable_pass). Exit 0 iff every
stable test passes. With --tags verif the same suite is run with the hooks ON."""
import json, os, subprocess, sys
env = dict(os.environ, GOPROXY="off", GOSUMDB="off", GOTOOLCHAIN="local")
env.pop("GOFLAGS", None)
cmd = ["go", "test", "-json", "-vet=off", "-count=1", "-timeout", "25m"] + sys.argv[1:] + ["./..."]
r = subprocess.run(cmd, cwd=os.environ.get("VERIF_REPO", "/repo"), env=env, stdout=subprocess.PIPE, stderr=subprocess.STDOUT, text=True)
passed = set()
for line in r.stdout.splitlines():
    try:
        ev = json.loads(line)
    except ValueError:
        continue
    if ev.get("Action") == "pass" and ev.get("Test"):
        passed.add(ev["Package"] + "::" + ev["Test"])
base = json.load(open("/root/.vp/BASELINE.json"))["stable_pass"] if os.path.exists("/root/.vp/BASELINE.json") else []
missing = [t for t in base if t not in passed]
print("passed=%d baseline=%d missing=%d" % (len(passed), len(base), len(missing)))
for t in missing:
    print("MISSING", t)
sys.exit(1 if missing or not passed else 0)
