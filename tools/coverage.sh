#!/bin/bash
# Diagnostic (no verdicts): which statements of cnotch/ipchub does the quick tier of each check execute?
#   tools/coverage.sh [pkg ...]        -> .work/cov/<pkg>.out (go cover profiles), .work/cov/merged.func.txt
# Used to find behaviour no check drives; findings go into DESIGN.md 9.9.
set -u
export GOFLAGS=-mod=mod GOPROXY=off GOSUMDB=off GOTOOLCHAIN=local
cd /verif
PKGS=${*:-$(jq -r '.[].pkg' checks.json | sort)}
D=/verif/.work/cov; mkdir -p "$D"
one() {
  pkg=$1; D=/verif/.work/cov
  (cd harness && go test -c -tags verif -vet=off -cover -covermode=atomic -coverpkg=github.com/cnotch/ipchub/... -o "$D/$pkg.test" ./$pkg) 2> "$D/$pkg.build.log" || { echo "$pkg: build failed"; return; }
  R="$D/run-$pkg"; rm -rf "$R"; mkdir -p "$R"
  [ -d harness/$pkg/testdata ] && cp -r harness/$pkg/testdata "$R/" && rm -rf "$R/testdata/rapid"
  (cd "$R" && VERIF_STATS=$R/stats.json VERIF_REPLAY_DIR=$R/replay VERIF_SEED=1 VERIF_TIER=quick VERIF_SHARD=0 VERIF_SHARDS=1 \
    VERIF_KNOWN=/verif/known_findings.json VERIF_WORK=$R VERIF_ROOT=/verif "$D/$pkg.test" -test.run '^Test' -test.count=1 -test.timeout 1500s \
    -rapid.seed=1000004 -test.coverprofile="$D/$pkg.out" > "$R/log.txt" 2>&1)
  echo "$pkg: exit $? $(tail -1 "$R/log.txt" | cut -c1-80)"
  rm -f "$D/$pkg.test"
}
export -f one
echo $PKGS | tr ' ' '\n' | xargs -P "${COV_N:-3}" -I{} bash -c 'one {}'
python3 - <<'EOF'
import glob, re, collections
cov = collections.defaultdict(int); stm = {}
for f in glob.glob('/verif/.work/cov/c*.out'):
    for l in open(f):
        m = re.match(r'(\S+):(\S+) (\d+) (\d+)$', l.strip())
        if not m: continue
        k = (m.group(1), m.group(2)); stm[k] = int(m.group(3)); cov[k] += int(m.group(4))
with open('/verif/.work/cov/merged.out', 'w') as o:
    o.write('mode: atomic\n')
    for k in sorted(stm): o.write('%s:%s %d %d\n' % (k[0], k[1], stm[k], cov[k]))
per = collections.defaultdict(lambda: [0, 0])
for k in stm:
    per[k[0]][0] += stm[k]; per[k[0]][1] += stm[k] if cov[k] else 0
with open('/verif/.work/cov/merged.files.txt', 'w') as o:
    for f, (t, c) in sorted(per.items(), key=lambda x: x[1][1] / max(1, x[1][0])):
        o.write('%5.1f%% %5d/%-5d %s\n' % (100.0 * c / max(1, t), c, t, f))
EOF
(cd /repo && go tool cover -func=/verif/.work/cov/merged.out > /verif/.work/cov/merged.func.txt 2>&1)
tail -1 /verif/.work/cov/merged.func.txt
