#!/usr/bin/env python3
"""Evaluate one seeded change (produced by an independent sub-agent) and file it under /verif/seeded/.

  tools/evalseed.py <src-dir> <ID>[,<ID>...]      e.g. tools/evalseed.py /tmp/seed-out/C17/A C17

Steps (all in a scratch worktree of /repo at the change's base commit, removed afterwards):
  1. the demonstration passes on the unchanged tree
  2. apply patch.diff; `go build ./...` and `go build -tags verif ./...`
  3. the project's own suite still passes (tools/baseline.py, guard off)
  4. the demonstration fails with the change
  5. run `./check <ID> quick` for every listed property id against the changed tree
     (VERIF_REPO=<worktree>), record exit status and the first VIOLATION line
Writes /verif/seeded/<ID>-<variant>/{patch.diff, demo files, meta.json} when 1-4 hold.
"""
import json, os, re, shutil, subprocess, sys, time

VERIF = os.path.dirname(os.path.dirname(os.path.abspath(__file__)))
ENV = dict(os.environ, GOPROXY="off", GOSUMDB="off", GOTOOLCHAIN="local")
ENV.pop("GOFLAGS", None)


def sh(cmd, cwd, env=None, timeout=1800):
    r = subprocess.run(cmd, cwd=cwd, env=env or ENV, shell=isinstance(cmd, str), stdout=subprocess.PIPE,
                       stderr=subprocess.STDOUT, text=True, timeout=timeout)
    return r.returncode, r.stdout


def demo(wt, src, meta):
    """Run the demonstration inside the worktree; returns (passed, tail-of-output)."""
    cmd = meta.get("demo_cmd", "")
    tags = ["-tags", "verif"] if "-tags verif" in cmd else []
    if os.path.isdir(os.path.join(src, "demo")):
        dst = os.path.join(wt, "zz_seed_demo")
        shutil.copytree(os.path.join(src, "demo"), dst)
        try:
            rc, out = sh(["go", "run"] + tags + ["./zz_seed_demo"], wt, timeout=300)
        finally:
            shutil.rmtree(dst, ignore_errors=True)
        return rc == 0, out[-1500:]
    tests = [f for f in os.listdir(src) if f.endswith("_test.go")]
    pk = re.search(r"\s(\./[A-Za-z0-9_/]+?)/?(\s|;|$)", cmd.split("go test", 1)[1] if "go test" in cmd else "")
    if not pk:
        first = open(os.path.join(src, tests[0])).read().split("\n", 3)
        m = re.search(r"([a-z]+(/[a-z0-9_]+)+)", " ".join(first[:3]))
        pkg = "./" + m.group(1).strip("/")
    else:
        pkg = pk.group(1)
    run = re.search(r"-run[= ]'?\"?([^'\" ]+)", cmd)
    copied = []
    for f in tests:
        d = os.path.join(wt, pkg, "zz_seed_" + f)
        shutil.copy(os.path.join(src, f), d)
        copied.append(d)
    try:
        args = ["go", "test"] + tags + ["-vet=off", "-count=1", "-timeout", "300s"]
        if run:
            args += ["-run", run.group(1)]
        rc, out = sh(args + [pkg], wt, timeout=600)
    finally:
        for d in copied:
            os.remove(d)
    return rc == 0, out[-1500:]


def main():
    src, ids = sys.argv[1].rstrip("/"), sys.argv[2].split(",")
    meta = json.load(open(os.path.join(src, "meta.json")))
    prev_run = meta.pop("what_i_ran", None) or {}
    name = "%s-%s" % (meta["property"], meta["variant"])
    wt = "/tmp/ev-" + name
    # Evaluate on the CURRENT /repo HEAD when the patch still applies there (every check is
    # green on HEAD, so a red check is owed to the seeded change alone); otherwise on the
    # change's base commit plus the verif-hook commits made since (the harness needs them).
    sh("git -C /repo worktree remove --force %s" % wt, "/")
    rc, out = sh("git -C /repo worktree add --detach %s HEAD" % wt, "/")
    if rc != 0:
        print(out)
        sys.exit(2)
    tree = "HEAD"
    rc, out = sh("git apply --check %s" % os.path.join(src, "patch.diff"), wt)
    if rc != 0:
        rc3, out3 = sh("git apply --3way %s" % os.path.join(src, "patch.diff"), wt)  # --check does not see merge conflicts
        sh("git reset -q --hard", wt)
        if rc3 != 0:
            tree = "base"
            sh("git -C /repo worktree remove --force %s" % wt, "/")
            rc, out = sh("git -C /repo worktree add --detach %s %s" % (wt, meta["base_commit"]), "/")
            if rc != 0:
                print(out)
                sys.exit(2)
            rcx, hooks = sh("git -C /repo log --reverse --format=%%H --grep='^verif hooks:' %s..HEAD" % meta["base_commit"], "/")
            for h in hooks.split():
                rcp, outp = sh("git cherry-pick -n %s" % h, wt)
                if rcp != 0:
                    sh("git cherry-pick --abort; git checkout -- .", wt)
            sh("git -c user.email=v@v -c user.name=v commit -q -m hooks --allow-empty", wt)
    print("evaluated on", tree)
    result = {"evaluated_at": time.strftime("%Y-%m-%dT%H:%M:%SZ", time.gmtime()), "steps": {}, "evaluated_on": tree,
              "repo_head": sh("git -C /repo rev-parse --short HEAD", "/")[1].strip()}
    ok = True
    # steps 1-4 were confirmed when the change was filed; EVAL_CHECKS_ONLY=1 re-runs the checks only
    only_checks = os.environ.get("EVAL_CHECKS_ONLY") == "1" and os.path.abspath(src).startswith(os.path.join(VERIF, "seeded"))
    try:
        p, out = (True, "") if only_checks else demo(wt, src, meta)
        result["steps"]["demo_passes_without_change"] = p
        if not p:
            print("demo does not pass on the unchanged tree:\n" + out)
            ok = False
        rc, out = sh("git apply %s" % os.path.join(src, "patch.diff"), wt)
        if rc != 0:
            rc, out = sh("git apply --3way %s" % os.path.join(src, "patch.diff"), wt)
        if rc != 0:
            print("patch does not apply:\n" + out)
            sys.exit(2)
        rc1, out1 = sh("go build ./... && go build -tags verif ./...", wt)
        result["steps"]["builds"] = rc1 == 0
        if rc1 != 0:
            print("does not build:\n" + out1[-2000:])
            ok = False
        env = dict(ENV, VERIF_REPO=wt)
        flaky = ("TestTimeout", "TestRequest_ResponseOK", "Test_Consumption_Consume", "Test_Consumption_ConsumePanic")  # timing-based tests of the project, flaky under load
        missing_all = None
        rc2, out2 = 0, ""
        for attempt in range(0 if only_checks else 4):
            rc2, out2 = sh([os.path.join(VERIF, "tools", "baseline.py")], wt, env=env)
            miss = set(re.findall(r"MISSING (\S+)", out2))
            missing_all = miss if missing_all is None else (missing_all & miss)  # a test counts as failing only if it fails every time
            if rc2 == 0 or not missing_all or not all(any(f in m for f in flaky) for m in missing_all):
                break
        if rc2 != 0 and missing_all is not None and not missing_all:
            rc2 = 0
        result["steps"]["existing_suite_passes"] = rc2 == 0
        if rc2 != 0:
            print("existing suite fails with the change:\n" + out2[-1500:])
            ok = False
        p, out = (False, "(not re-run)") if only_checks else demo(wt, src, meta)
        result["steps"]["demo_fails_with_change"] = not p
        result["demo_output_with_change"] = out[-600:]
        if p:
            print("demo does NOT fail with the change:\n" + out)
            ok = False
        if only_checks and prev_run.get("steps"):
            result["steps"] = dict(prev_run["steps"], rechecked_only=True)
            result["demo_output_with_change"] = prev_run.get("demo_output_with_change", "")
        checks = {}
        for pid in ids:
            rc, out = sh([os.path.join(VERIF, "check"), pid, "quick"], VERIF, env=dict(os.environ, VERIF_REPO=wt), timeout=3600)
            v = re.search(r"^VIOLATION .*$", out, re.M)
            d = re.search(r"VIOLATION-DETAIL[^\n]{0,400}", out)
            checks[pid] = {"exit": rc, "caught": rc == 1, "violation": v.group(0) if v else None, "detail": d.group(0) if d else None}
            print("check %s quick against %s: exit %d %s" % (pid, name, rc, "(CAUGHT)" if rc == 1 else "(missed)" if rc == 0 else "(inconclusive)"))
        result["checks"] = checks
    finally:
        sh("git -C /repo worktree remove --force %s" % wt, "/")
        shutil.rmtree("/verif/.work/alt-" + __import__("hashlib").md5(wt.encode()).hexdigest()[:8], ignore_errors=True)
    if ok:
        dst = os.path.join(VERIF, "seeded", name)
        if os.path.abspath(dst) != os.path.abspath(src):
            shutil.rmtree(dst, ignore_errors=True)
            os.makedirs(dst)
        for f in ([] if os.path.abspath(dst) == os.path.abspath(src) else os.listdir(src)):
            s = os.path.join(src, f)
            if os.path.isdir(s):
                shutil.copytree(s, os.path.join(dst, f))
            elif f != "meta.json":
                shutil.copy(s, dst)
        import fcntl
        lock = open(os.path.join(VERIF, ".work", "seeded-index.lock"), "w")
        fcntl.flock(lock, fcntl.LOCK_EX)  # several evaluations may run side by side
        old = {}
        try:
            old = json.load(open(os.path.join(VERIF, "seeded", "index.json")))
        except (OSError, ValueError):
            pass
        hist = old.get(name, {}).get("history", [])
        hist.append({"at": result["evaluated_at"], "on": result["evaluated_on"] + "@" + result["repo_head"], "checks": {k: ("caught" if v["caught"] else "missed" if v["exit"] == 0 else "inconclusive") for k, v in result.get("checks", {}).items()}})
        old[name] = {"property": meta["property"], "summary": meta.get("summary", "")[:300], "needs": meta.get("needs", "")[:300],
                     "latest": hist[-1]["checks"], "history": hist}
        meta["what_i_ran"] = result
        json.dump(meta, open(os.path.join(dst, "meta.json"), "w"), indent=1, ensure_ascii=False)
        json.dump(old, open(os.path.join(VERIF, "seeded", "index.json"), "w"), indent=1, ensure_ascii=False, sort_keys=True)
        print("filed under", dst)
    else:
        print("NOT kept:", name, json.dumps(result["steps"]))
    sys.exit(0)


if __name__ == "__main__":
    main()
