#!/usr/bin/env python3
"""Render seeded/index.json as the markdown table of DESIGN.md 9.5 (stdout)."""
import json, os
V = os.path.dirname(os.path.dirname(os.path.abspath(__file__)))
ix = json.load(open(os.path.join(V, "seeded", "index.json")))
try:
    notes = json.load(open(os.path.join(V, "seeded", "notes.json")))
except OSError:
    notes = {}
print("| change | what it does (first words of the seeder's summary) | first evaluation | final evaluation (checks at HEAD) | note |")
print("|---|---|---|---|---|")
def fmt(c):
    return ", ".join("%s %s" % (k, v) for k, v in sorted(c.items()))
for name in sorted(ix):
    e = ix[name]
    h = e["history"]
    summ = " ".join(e["summary"].split())[:110].replace("|", "/")
    own = e["property"]
    first = h[0]["checks"].get(own, "?")
    latest = {}
    for ent in h:  # the most recent verdict of every check that was ever run against the change
        latest.update(ent["checks"])
    print("| %s | %s | %s %s | %s | %s |" % (name, summ, own, first, fmt(latest), notes.get(name, "")))
