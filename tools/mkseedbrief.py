#!/usr/bin/env python3
"""Print the brief handed to an independent seeding sub-agent for one property and one round.

  tools/mkseedbrief.py C07 R6   -> text on stdout

The brief contains the property's text, the agent's scratch worktree and output
directory, the deliverable format tools/evalseed.py expects, and one-line
summaries of the changes already filed for that property (so that a new round
goes to other code sites and mechanisms). Nothing else from /verif is given.
"""
import json, os, sys

VERIF = os.path.dirname(os.path.dirname(os.path.abspath(__file__)))
pid, rnd = sys.argv[1], sys.argv[2]
prop = None
for l in open(os.path.join(VERIF, "properties.jsonl")):
    p = json.loads(l)
    if p["id"] == pid:
        prop = p
idx = json.load(open(os.path.join(VERIF, "seeded", "index.json")))
earlier = [(k, v["summary"][:260]) for k, v in sorted(idx.items()) if v["property"] == pid]
wt = "/tmp/seed-wt/%s-%s" % (pid, rnd)
out = "/tmp/seed-out/%s-%s" % (pid, rnd)

print(f"""You are helping to evaluate a verification effort for the Go project cnotch/ipchub (an RTSP/RTP streaming
media server for IP cameras with H.264/H.265/AAC parsing and FLV, HLS/MPEG-TS and WebSocket remuxing). Your job is
to act as a careful "bug seeder": write TWO independent, realistic changes to ipchub that each BREAK the semantic
property quoted below, while the code still compiles and the project's existing test suite still passes.

You work ONLY in your own scratch git worktree: {wt}  (a detached worktree of the repository at its current HEAD;
create nothing elsewhere except your output directory {out}; never touch /repo or /verif, and do not read anything
under /verif). NEVER use `git stash` (the stash is shared by all worktrees of the repository and other people work in
sibling worktrees): to set a change aside use `git diff > file` and `git apply -R file`. Every shell call needs:  export GOPROXY=off GOSUMDB=off GOTOOLCHAIN=local   (no network; do not set
GOFLAGS=-mod=mod inside the worktree).

THE PROPERTY ({pid}: {prop['title']})
  Statement: {prop['statement']}
  Quantifier: {prop['quantifier']}
  Why ordinary tests cannot settle it: {prop['why_tests_cant']}
  Anchored in: {json.dumps(prop['anchors'])}

WHAT A GOOD CHANGE LOOKS LIKE
  * It looks like something a maintainer could plausibly commit: a refactoring, an optimisation (fast path, pooled
    buffer, narrower lock, cache/memo), a tidy-up, a "hardening", a feature flag - not a planted "if x == 42".
  * It must NEED SOMETHING SPECIFIC TO MANIFEST: a particular interleaving, a crash/fault at a particular point, a
    multi-step sequence of operations, an unusual (but legal, in-domain) input, a documented non-default
    configuration, or two cooperating sites that each look fine alone. Ordinary use (one publisher, one player, default
    input) must NOT expose it at once.
  * It genuinely violates the statement above for inputs/histories inside the statement's own domain (not merely a
    neighbouring behaviour, a log line, performance, or an error message).
  * `go build ./...` and `go build -tags verif ./...` succeed, and the project's own tests still pass:
    `go test -vet=off -count=1 ./...` in the worktree must give the same set of passing tests as before your change
    (some tests fail on the unchanged tree already because capture files are missing: compare with a run on the
    unchanged worktree; a few timing-based tests are flaky under load - rerun those).
  * The code has build-tag `verif` hook files (files named verif_*.go / *_verif.go and calls such as verifPoint(...)):
    leave them in place and working; you may use the hooks in your demonstration if useful (then use -tags verif).

CHANGES ALREADY FILED FOR THIS PROPERTY IN EARLIER ROUNDS - choose OTHER code sites and OTHER mechanisms:
""" + "\n".join("  - %s: %s" % e for e in earlier) + f"""

DELIVERABLE, per change, in {out}/A and {out}/B :
  patch.diff   - `git diff` of the worktree against HEAD with ONLY this change (A and B are independent: each applies
                 to the clean HEAD on its own; reset the worktree between them with `git checkout -- . && git clean -fd`)
  a demonstration - EITHER one or more Go test files named *_test.go (package of the directory they are meant to be
                 copied into; unique test function names starting TestSeed{pid}{rnd}A / ...B) that PASS on the unchanged tree
                 and FAIL with the change, deterministic enough to fail at least 9 times out of 10 with the change and
                 never on the unchanged tree (loop inside the test if a race needs many tries; keep it under 60 s),
                 OR a directory demo/ with a `package main` program that exits 0 without / non-zero with the change.
  meta.json    - {{"property": "{pid}", "variant": "{rnd}A" (or "{rnd}B"), "summary": "<which file/function, what was changed and
                 presented as what, and why that breaks the property>", "needs": "<exactly what is needed for it to
                 manifest, and what ordinary use is unaffected>", "files": ["<changed files>"],
                 "demo_cmd": "cp {out}/A/<file>_test.go <worktree>/<pkg dir>/zz_seed_<file>_test.go && cd <worktree> && GOPROXY=off GOSUMDB=off GOTOOLCHAIN=local go test [-tags verif] -vet=off -count=1 -run '<TestName>' ./<pkg dir>/",
                 "base_commit": "<git rev-parse HEAD of the worktree>"}}
  Before you finish, VERIFY each change yourself: demonstration passes on clean HEAD (run 3 times), fails with the
  change (run 3 times), both builds succeed, `go test -vet=off -count=1 ./...` passes the same tests as on clean HEAD.
  Leave the worktree clean (git checkout -- . && git clean -fd) when done. Keep scratch files out of /tmp apart from
  the two directories named above.

Report back in a few lines: for A and for B, the one-sentence idea, the files touched, and the verification you ran.
Aim to be finished within about 35 minutes. If after honest effort you can produce only one sound change, deliver one and say so.""")
