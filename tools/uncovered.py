#!/usr/bin/env python3
"""List source lines of cnotch/ipchub that tools/coverage.sh found unexecuted: tools/uncovered.py <path-substring> ..."""
import re, sys
blocks = {}
for l in open('/verif/.work/cov/merged.out'):
    m = re.match(r'github.com/cnotch/ipchub/(\S+):(\d+)\.(\d+),(\d+)\.(\d+) (\d+) (\d+)$', l.strip())
    if m and int(m.group(7)) == 0:
        blocks.setdefault(m.group(1), []).append((int(m.group(2)), int(m.group(4))))
for f in sorted(blocks):
    if not any(a in f for a in sys.argv[1:]):
        continue
    src = open('/repo/' + f).read().split('\n')
    print('=====', f)
    last = -1
    for a, b in sorted(blocks[f]):
        for i in range(max(a, last + 1), b + 1):
            print('%5d  %s' % (i, src[i - 1]))
        last = max(last, b)
        print('       --')
