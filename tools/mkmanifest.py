#!/usr/bin/env python3
"""Regenerates MANIFEST.json from checks.json (single source of truth for the driver and the manifest)."""
import json, os, subprocess
V = os.path.dirname(os.path.dirname(os.path.abspath(__file__)))
cfg = json.load(open(os.path.join(V, "checks.json")))
meta = json.load(open(os.path.join(V, "manifest_meta.json")))
checks = []
for pid in sorted(cfg):
    c = cfg[pid]
    e = {"property_id": pid, "quick_cmd": "./check %s quick" % pid, "thorough_cmd": "./check %s thorough" % pid,
         "evidence_file": "/verif/evidence/%s.json" % pid, "replay_cmd_template": "./check %s --replay {path}" % pid,
         "engine": "harness",
         "level_claimed": {"category": c["level"], "text": c["level_text"], "design_ref": c.get("design_ref", "DESIGN.md §5 " + pid)},
         "level_note": c["level_note"], "technique": c["technique"]}
    checks.append(e)
m = dict(meta)
m["checks"] = checks
m["not_applicable"] = [x for x in meta.get("not_applicable", []) if x["property_id"] not in cfg]
json.dump(m, open(os.path.join(V, "MANIFEST.json"), "w"), indent=1, ensure_ascii=False)
print("MANIFEST.json: %d checks, %d not_applicable" % (len(checks), len(m["not_applicable"])))
