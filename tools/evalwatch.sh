#!/bin/bash
# Evaluate round-N deliverables as they arrive: tools/evalwatch.sh R4
cd /verif
R=${1:-R4}
while :; do
  for d in /tmp/seed-out/*-$R/A /tmp/seed-out/*-$R/B; do
    [ -f "$d/meta.json" ] && [ -f "$d/patch.diff" ] || continue
    n=$(echo "${d#/tmp/seed-out/}" | tr / -)
    [ -f ".work/evalseed-$n.log" ] && continue
    # settled for 4 minutes?
    [ -n "$(find "$d" -newermt '-240 seconds' -print -quit)" ] && continue
    id=${n%%-*}
    : > ".work/evalseed-$n.log"
    ( tools/evalseed.py "$d" "$id" > ".work/evalseed-$n.log" 2>&1; grep -H "^check\|NOT kept\|does not apply" ".work/evalseed-$n.log" >> .work/evalall-$R.log ) &
    while [ "$(jobs -r | wc -l)" -ge ${EVALWATCH_N:-2} ]; do sleep 5; done
  done
  sleep 30
  [ -f .work/evalwatch.stop ] && break
done
