#!/bin/bash
# Re-evaluate every seeded change under /verif/seeded against the current checks (N at a time).
#   tools/evalall.sh [N] [name-regex]
cd /verif
N=${1:-2}; RE=${2:-.}
extra() { case "$1" in
  C01-B) echo C01,C13;; C10-R2B) echo C10,C09;; C12-R2B) echo C12,C03;; C11-R2B) echo C11,C16;;
  C12-R2A) echo C12,C13;; C14-R2B) echo C14,C20;; C09-R3A) echo C09,C10;; C09-R3B) echo C09,C10;; C09-R4A) echo C09,C10;;
  C08-R3A) echo C08,C02;; C11-R3A) echo C11,C18;; C05-R4B) echo C05,C17,C20;; C12-R3B) echo C12,C03;; C01-R7A) echo C01,C02;; *) echo "${1%%-*}";; esac; }
export -f extra
ls seeded | grep -v index.json | grep -E "$RE" | xargs -P "$N" -I{} bash -c 'ids=$(extra {}); EVAL_CHECKS_ONLY=1 tools/evalseed.py /verif/seeded/{} $ids > .work/evalseed-{}.log 2>&1; grep -H "^check\|NOT kept\|does not apply\|^evaluated on" .work/evalseed-{}.log'
