#!/bin/bash
# Run selected test functions of one property package against a tree (development aid, no verdicts filed).
#   tools/runone.sh <tree: /repo or a scratch worktree> <pkg e.g. c07> <-test.run regex> [tier] [extra go-test args...]
# With a seeded change:  tools/runone.sh seeded/C07-R5A c07 TestWireRefusedFrames   (applies patch.diff in a scratch worktree, removes it afterwards)
set -u
TREE=$1; PKG=$2; RUN=$3; TIER=${4:-quick}; shift; shift; shift; shift 2>/dev/null
export GOFLAGS=-mod=mod GOPROXY=off GOSUMDB=off GOTOOLCHAIN=local
cd /verif
CLEAN=""
if [ -f "$TREE/patch.diff" ]; then
  WT=/tmp/ro-$(basename "$TREE")-$$
  git -C /repo worktree add --detach "$WT" HEAD >/dev/null 2>&1 || exit 2
  (cd "$WT" && (git apply "/verif/$TREE/patch.diff" 2>/dev/null || git apply --3way "/verif/$TREE/patch.diff")) || { echo "patch does not apply"; git -C /repo worktree remove --force "$WT"; exit 2; }
  CLEAN=$WT; TREE=$WT
fi
D=/verif/.work/runone-$$; mkdir -p "$D/mod" "$D/run"
sed "s#=> /repo#=> $TREE#" harness/go.mod > "$D/mod/go.mod"
sort -u "$TREE/go.sum" harness/extra.sum > "$D/mod/go.sum"
(cd harness && go test -c -tags verif -vet=off -modfile="$D/mod/go.mod" -o "$D/t.test" ./$PKG) || { rm -rf "$D"; [ -n "$CLEAN" ] && git -C /repo worktree remove --force "$CLEAN"; exit 2; }
[ -d harness/$PKG/testdata ] && cp -r harness/$PKG/testdata "$D/run/" && rm -rf "$D/run/testdata/rapid"
(cd "$D/run" && VERIF_STATS=$D/stats.json VERIF_REPLAY_DIR=$D/replay VERIF_SEED=${VERIF_SEED:-1} VERIF_TIER=$TIER VERIF_SHARD=0 VERIF_SHARDS=1 \
  VERIF_KNOWN=/verif/known_findings.json VERIF_WORK=$D/run VERIF_ROOT=/verif "$D/t.test" -test.run "$RUN" -test.count=1 -test.timeout 1200s -rapid.seed=${RAPID_SEED:-1000004} "$@" 2>&1 | grep -v '^\S*\(INFO\|WARN\|ERROR\|DEBUG\)\|^ -  {' | tail -${TAIL:-40})
RC=${PIPESTATUS[0]}
rm -rf "$D"
[ -n "$CLEAN" ] && git -C /repo worktree remove --force "$CLEAN"
exit $RC
